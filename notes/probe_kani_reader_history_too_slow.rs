// probe: API-level reader history (ShapeReader::with_shx over a custom Read+Seek source, 3 Point records, index,
// partial iteration / further iteration / random access / seek) did not finish within 30 minutes of CBMC time.
// (uses struct Mem of kani/k_hist.rs)
impl std::io::Read for Mem<'_> {
    fn read(&mut self, out: &mut [u8]) -> std::io::Result<usize> {
        let avail = if self.pos < self.len { self.len - self.pos } else { 0 };
        let n = if out.len() < avail { out.len() } else { avail };
        let mut i = 0;
        while i < n {
            out[i] = self.buf[self.pos + i];
            i += 1;
        }
        self.pos += n;
        Ok(n)
    }
}
fn put_be32(b: &mut [u8], at: usize, v: i32) {
    let x = v.to_be_bytes();
    b[at] = x[0];
    b[at + 1] = x[1];
    b[at + 2] = x[2];
    b[at + 3] = x[3];
}
fn put_le32(b: &mut [u8], at: usize, v: i32) {
    let x = v.to_le_bytes();
    b[at] = x[0];
    b[at + 1] = x[1];
    b[at + 2] = x[2];
    b[at + 3] = x[3];
}
fn put_le64(b: &mut [u8], at: usize, v: u64) {
    let x = v.to_le_bytes();
    let mut i = 0;
    while i < 8 {
        b[at + i] = x[i];
        i += 1;
    }
}

/// a 3-record Point file laid out by hand (whitepaper), records stored in the order 0, 2, 1 with the index in
/// logical order; history: one item of a first iteration, a further iteration (one item), random access, a new
/// iteration, seek(2) and a last iteration
#[kani::proof]
#[kani::unwind(24)]
fn k_hist_reader_with_index() {
    let xs: [u64; 3] = kani::any();
    let mut shp = [0u8; 184];
    let mut shx = [0u8; 124];
    put_be32(&mut shp, 0, 9994);
    put_be32(&mut shp, 24, 92);
    put_le32(&mut shp, 28, 1000);
    put_le32(&mut shp, 32, 1);
    put_be32(&mut shx, 0, 9994);
    put_be32(&mut shx, 24, 62);
    put_le32(&mut shx, 28, 1000);
    put_le32(&mut shx, 32, 1);
    // physical order: record 0 at 100, record 2 at 128, record 1 at 156
    let at = [100usize, 156, 128];
    let mut i = 0;
    while i < 3 {
        put_be32(&mut shp, at[i], i as i32 + 1);
        put_be32(&mut shp, at[i] + 4, 10);
        put_le32(&mut shp, at[i] + 8, 1);
        put_le64(&mut shp, at[i] + 12, xs[i]);
        put_le64(&mut shp, at[i] + 20, (i as f64).to_bits());
        put_be32(&mut shx, 100 + 8 * i, (at[i] / 2) as i32);
        put_be32(&mut shx, 104 + 8 * i, 10);
        i += 1;
    }
    let r = ShapeReader::with_shx(Mem { buf: &mut shp[..], pos: 0, len: 184 }, Mem { buf: &mut shx[..], pos: 0, len: 124 });
    assert!(r.is_ok());
    let mut rd = r.unwrap();
    assert!(matches!(rd.shape_count(), Ok(3)));
    {
        let mut it = rd.iter_shapes_as::<Point>();
        let a = it.next();
        assert!(matches!(a, Some(Ok(p)) if p.x.to_bits() == xs[0] && p.y == 0.0));
        std::mem::forget(a);
    }
    {
        let mut it = rd.iter_shapes_as::<Point>();
        let a = it.next();
        assert!(matches!(a, Some(Ok(p)) if p.x.to_bits() == xs[1] && p.y == 1.0));
        std::mem::forget(a);
    }
    let n = rd.read_nth_shape_as::<Point>(2);
    assert!(matches!(n, Some(Ok(p)) if p.x.to_bits() == xs[2] && p.y == 2.0));
    std::mem::forget(n);
    {
        let mut it = rd.iter_shapes_as::<Point>();
        let a = it.next();
        assert!(matches!(a, Some(Ok(p)) if p.x.to_bits() == xs[0] && p.y == 0.0));
        std::mem::forget(a);
    }
    let s = rd.seek(2);
    assert!(s.is_ok());
    std::mem::forget(s);
    {
        let mut it = rd.iter_shapes_as::<Point>();
        let a = it.next();
        assert!(matches!(a, Some(Ok(p)) if p.x.to_bits() == xs[2] && p.y == 2.0));
        std::mem::forget(a);
        let b = it.next();
        assert!(b.is_none());
        std::mem::forget(b);
    }
    assert!(matches!(rd.shape_count(), Ok(3)));
}
