// probe: a record-level reader harness (PolylineZ::read_shape_content on a hand-laid 176-byte record, symbolic doubles)
// did not finish within 15 minutes of CBMC time; kept for reference, not registered.
//! K9 (C01, C03, C13 bounded): the shared array readers and the multi-part record readers of the real crate on
//! records laid out by hand from the whitepaper (independent of the crate's writer), symbolic doubles (all bit
//! patterns), small fixed structure.  BOUNDED stand-in.
use crate::record::io::*;
use crate::record::ConcreteReadableShape;
use crate::*;

fn put_f64(buf: &mut [u8], at: usize, v: u64) {
    let b = v.to_le_bytes();
    let mut i = 0;
    while i < 8 {
        buf[at + i] = b[i];
        i += 1;
    }
}
fn put_i32(buf: &mut [u8], at: usize, v: i32) {
    let b = v.to_le_bytes();
    let mut i = 0;
    while i < 4 {
        buf[at + i] = b[i];
        i += 1;
    }
}
/// the measure normalisation of C01: NaN and anything below NO_DATA read back as NO_DATA, everything else as stored
fn m_norm_ok(stored: u64, got: f64) -> bool {
    let s = f64::from_bits(stored);
    if s.is_nan() || s < NO_DATA {
        got.to_bits() == NO_DATA.to_bits()
    } else {
        got.to_bits() == stored || (s == NO_DATA && got == NO_DATA)
    }
}

/// PolylineZ record content (whitepaper p.15), 2 parts of 2 + 1 points, laid out by hand; with and without the
/// optional M block.  Every stored double is symbolic.
#[kani::proof]
#[kani::unwind(12)]
fn k_io_polylinez_foreign() {
    let with_m: bool = kani::any();
    let v: [u64; 21] = kani::any(); // box 4, xy 6, zrange 2, z 3, mrange 2, m 3 (+1 spare)
    let mut buf = [0u8; 4 * 8 + 8 + 8 + 48 + 16 + 24 + 16 + 24];
    let mut k = 0;
    while k < 4 {
        put_f64(&mut buf, 8 * k, v[k]);
        k += 1;
    }
    put_i32(&mut buf, 32, 2);
    put_i32(&mut buf, 36, 3);
    put_i32(&mut buf, 40, 0);
    put_i32(&mut buf, 44, 2);
    let mut k = 0;
    while k < 6 {
        put_f64(&mut buf, 48 + 8 * k, v[4 + k]);
        k += 1;
    }
    let mut k = 0;
    while k < 5 {
        put_f64(&mut buf, 96 + 8 * k, v[10 + k]);
        k += 1;
    }
    let mut k = 0;
    while k < 5 {
        put_f64(&mut buf, 136 + 8 * k, v[15 + k]);
        k += 1;
    }
    let len: usize = if with_m { 176 } else { 136 };
    let mut s: &[u8] = &buf[..len];
    // record_size as the reader receives it: content length minus the 4 bytes of the shape type
    let r = PolylineZ::read_shape_content(&mut s, len as i32);
    assert!(r.is_ok());
    let pl = r.unwrap();
    assert!(s.is_empty());
    assert!(pl.parts().len() == 2 && pl.parts()[0].len() == 2 && pl.parts()[1].len() == 1);
    let p = [pl.parts()[0][0], pl.parts()[0][1], pl.parts()[1][0]];
    let mut i = 0;
    while i < 3 {
        assert!(p[i].x.to_bits() == v[4 + 2 * i] && p[i].y.to_bits() == v[5 + 2 * i]);
        assert!(p[i].z.to_bits() == v[12 + i]);
        if with_m {
            assert!(m_norm_ok(v[17 + i], p[i].m));
        } else {
            assert!(p[i].m.to_bits() == NO_DATA.to_bits());
        }
        i += 1;
    }
    // the stored box is returned as stored
    assert!(pl.bbox().min.x.to_bits() == v[0] && pl.bbox().min.y.to_bits() == v[1] && pl.bbox().max.x.to_bits() == v[2] && pl.bbox().max.y.to_bits() == v[3]);
    assert!(pl.bbox().min.z.to_bits() == v[10] && pl.bbox().max.z.to_bits() == v[11]);
}
