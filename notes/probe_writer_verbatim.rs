use vstd::prelude::*;
use std::io::{Write, Seek, SeekFrom};
verus! {
global size_of usize == 8;
broadcast use vstd::layout::group_layout_axioms;


#[verifier::external_type_specification]
#[verifier::external_body]
pub struct ExIoError(std::io::Error);
#[verifier::external_type_specification]
pub struct ExSeekFrom(std::io::SeekFrom);

#[verifier::external_trait_specification]
#[verifier::external_trait_extension(WriteSpec via WriteSpecImpl)]
pub trait ExWrite {
    type ExternalTraitSpecificationFor: std::io::Write;
    spec fn bytes(&self) -> Seq<u8>;
    spec fn pos(&self) -> int;
    fn write_all(&mut self, buf: &[u8]) -> (r: Result<(), std::io::Error>);
    fn flush(&mut self) -> (r: Result<(), std::io::Error>);
}
#[verifier::external_trait_specification]
pub trait ExSeek {
    type ExternalTraitSpecificationFor: std::io::Seek;
    fn seek(&mut self, pos: SeekFrom) -> (r: Result<u64, std::io::Error>);
}

#[verifier::external_body]
fn wr_i32_be<W: Write>(w: &mut W, n: i32) -> (r: Result<(), std::io::Error>) { unimplemented!() }
#[verifier::external_body]
fn wr_i32_le<W: Write>(w: &mut W, n: i32) -> (r: Result<(), std::io::Error>) { unimplemented!() }
#[verifier::external_body]
fn wr_f64_le<W: Write>(w: &mut W, n: f64) -> (r: Result<(), std::io::Error>) { unimplemented!() }

pub uninterp spec fn s_f64_min() -> f64;
pub uninterp spec fn s_f64_max() -> f64;
#[verifier::external_body]
fn c_f64_min() -> (r: f64) ensures r == s_f64_min() { f64::MIN }
#[verifier::external_body]
fn c_f64_max() -> (r: f64) ensures r == s_f64_max() { f64::MAX }

pub enum Error {
    IoError(std::io::Error),
    MismatchShapeType { requested: ShapeType, actual: ShapeType },
}
impl vstd::std_specs::convert::FromSpecImpl<std::io::Error> for Error {
    open spec fn obeys_from_spec() -> bool { true }
    open spec fn from_spec(v: std::io::Error) -> Self { Error::IoError(v) }
}
impl From<std::io::Error> for Error {
    fn from(error: std::io::Error) -> Error { Error::IoError(error) }
}

#[derive(Debug, PartialEq, Copy, Clone)]
pub enum ShapeType {
    NullShape = 0,
    Point = 1,
    Polyline = 3,
    PointZ = 11,
}

impl ShapeType {
    pub(crate) fn write_to<T: Write>(self, dest: &mut T) -> Result<(), std::io::Error> {
        wr_i32_le(dest, self as i32)?;
        Ok(())
    }
    pub fn has_z(self) -> bool {
        matches!(
            self,
            ShapeType::PointZ
        )
    }
}

#[derive(PartialEq, Debug, Copy, Clone)]
pub struct PointZ { pub x: f64, pub y: f64, pub z: f64, pub m: f64 }
impl PointZ {
    pub fn new(x: f64, y: f64, z: f64, m: f64) -> Self { Self { x, y, z, m } }
}
#[derive(Debug, Copy, Clone, PartialEq)]
pub struct GenericBBox<PointType> { pub max: PointType, pub min: PointType }
pub type BBoxZ = GenericBBox<PointZ>;

pub const HEADER_SIZE: i32 = 100;
pub const FILE_CODE: i32 = 9994;
pub exec const SIZE_OF_SKIP: usize ensures SIZE_OF_SKIP == 20 { size_of::<i32>() * 5 }

#[derive(Copy, Clone, PartialEq)]
pub struct Header {
    pub file_length: i32,
    pub bbox: BBoxZ,
    pub shape_type: ShapeType,
    pub version: i32,
}

impl Header {
    pub(crate) fn write_to<T: Write>(&self, dest: &mut T) -> Result<(), std::io::Error> {
        wr_i32_be(dest, FILE_CODE)?;

        let skip: [u8; SIZE_OF_SKIP] = [0; SIZE_OF_SKIP];
        dest.write_all(&skip)?;

        wr_i32_be(dest, self.file_length)?;
        wr_i32_le(dest, self.version)?;
        wr_i32_le(dest, self.shape_type as i32)?;

        wr_f64_le(dest, self.bbox.min.x)?;
        Ok(())
    }
}

pub trait HasShapeType { fn shapetype() -> ShapeType; }
pub trait WritableShape {
    fn size_in_bytes(&self) -> usize;
    fn write_to<T: Write>(&self, dest: &mut T) -> Result<(), Error>;
}
pub trait EsriShape: HasShapeType + WritableShape {
    fn x_range(&self) -> [f64; 2];
}

pub struct ShapeWriter<T: Write + Seek> {
    shp_dest: T,
    shx_dest: Option<T>,
    header: Header,
    rec_num: u32,
    dirty: bool,
}

impl<T: Write + Seek> ShapeWriter<T> {
    pub fn write_shape<S: EsriShape>(&mut self, shape: &S) -> Result<(), Error> {
        match (self.header.shape_type, S::shapetype()) {
            (ShapeType::NullShape, t) => {
                self.header.shape_type = t;
                self.header.bbox = BBoxZ {
                    max: PointZ::new(c_f64_min(), c_f64_min(), c_f64_min(), c_f64_min()),
                    min: PointZ::new(c_f64_max(), c_f64_max(), c_f64_max(), c_f64_max()),
                };
                self.header.write_to(&mut self.shp_dest)?;
                if let Some(shx_dest) = &mut self.shx_dest {
                    self.header.write_to(shx_dest)?;
                }
            }
            (t1, t2) if t1 != t2 => {
                return Err(Error::MismatchShapeType {
                    requested: t1,
                    actual: t2,
                });
            }
            _ => {}
        }

        let record_size = (shape.size_in_bytes() + std::mem::size_of::<i32>()) / 2;
        self.header.shape_type.write_to(&mut self.shp_dest)?;
        shape.write_to(&mut self.shp_dest)?;

        self.header.file_length += record_size as i32 + 8 as i32 / 2;
        self.rec_num += 1;
        self.dirty = true;

        Ok(())
    }

    pub fn finalize(&mut self) -> Result<(), Error> {
        if !self.dirty {
            return Ok(());
        }

        if self.header.bbox.max.m == c_f64_min() && self.header.bbox.min.m == c_f64_max() {
            self.header.bbox.max.m = 0.0;
            self.header.bbox.min.m = 0.0;
        }

        self.shp_dest.seek(SeekFrom::Start(0))?;
        self.header.write_to(&mut self.shp_dest)?;
        self.shp_dest.seek(SeekFrom::End(0))?;
        self.shp_dest.flush()?;

        if let Some(shx_dest) = &mut self.shx_dest {
            let mut shx_header = self.header;
            shx_header.file_length = HEADER_SIZE / 2
                + ((self.rec_num - 1) as i32 * 2 * size_of::<i32>() as i32 / 2);
            shx_dest.seek(SeekFrom::Start(0))?;
            shx_header.write_to(shx_dest)?;
            shx_dest.seek(SeekFrom::End(0))?;
            shx_dest.flush()?;
        }
        self.dirty = false;
        Ok(())
    }
}

} // verus!
fn main() {}
