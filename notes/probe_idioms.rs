use vstd::prelude::*;
verus! {
global size_of usize == 8;

pub const NO_DATA: f64 = -10e38;
pub assume_specification<T: Copy>[Option::<&T>::copied](o: Option<&T>) -> (r: Option<T>)
    ensures o is None ==> r is None, o is Some ==> r == Some(*o->Some_0);
pub uninterp spec fn s_f64_max(a: f64, b: f64) -> f64;
pub assume_specification[f64::max](a: f64, b: f64) -> (r: f64)
    ensures r == s_f64_max(a, b);
pub assume_specification<T>[<[T]>::reverse](s: &mut [T])
    ensures final(s)@ == old(s)@.reverse();


struct PartIndexIter<'a> {
    parts_indices: &'a Vec<i32>,
    current_part_index: usize,
    num_points: i32,
}
impl<'a> PartIndexIter<'a> {
    fn new(parts_indices: &'a Vec<i32>, num_points: i32) -> Self {
        Self { parts_indices, current_part_index: 0, num_points }
    }
}
impl Iterator for PartIndexIter<'_> {
    type Item = (i32, i32);
    fn next(&mut self) -> Option<Self::Item> {
        if self.current_part_index < self.parts_indices.len() {
            let start_of_part_index = self.parts_indices[self.current_part_index];
            let end_of_part_index = self
                .parts_indices
                .get(self.current_part_index + 1)
                .copied()
                .unwrap_or(self.num_points);
            self.current_part_index += 1;
            debug_assert!(end_of_part_index >= start_of_part_index);
            Some((start_of_part_index, end_of_part_index))
        } else {
            None
        }
    }
}

fn use_it(parts: &Vec<i32>, n: i32) -> Vec<i32> {
    let mut out = Vec::new();
    for (start_index, end_index) in PartIndexIter::new(parts, n) {
        let num_points_in_part = end_index - start_index;
        out.push(num_points_in_part);
    }
    out
}

fn mx(a: f64) -> f64 { f64::max(a, NO_DATA) }

pub(crate) fn is_part_closed<PointType: PartialEq>(points: &[PointType]) -> bool {
    if let (Some(first), Some(last)) = (points.first(), points.last()) {
        first == last
    } else {
        false
    }
}
pub(crate) fn close_points_if_not_already<PointType: PartialEq + Copy>(points: &mut Vec<PointType>) {
    if !is_part_closed(points) {
        if let Some(point) = points.first().copied() {
            points.push(point)
        }
    }
}
fn rev(points: &mut Vec<u8>) { points.reverse(); }

fn chk(parts: Vec<Vec<u8>>) -> Vec<Vec<u8>> {
    assert!(
        parts.iter().all(|p| p.len() >= 2),
        "Polylines parts must have at least 2 points"
    );
    parts
}
fn mk(n: i32) -> Vec<u8> { vec![7u8; n as usize] }
fn zp(a: &Vec<u8>, b: Vec<u8>) -> usize {
    let mut c = 0usize;
    for (x, y) in a.iter().zip(b) { if c < 100 { c += 1; } }
    c
}
}
fn main(){}
