use vstd::prelude::*;
use std::io::{Read, Seek, SeekFrom};
verus! {
global size_of usize == 8;
broadcast use vstd::layout::group_layout_axioms;

#[verifier::external_type_specification]
#[verifier::external_body]
pub struct ExIoError(std::io::Error);
#[verifier::external_type_specification]
pub struct ExSeekFrom(std::io::SeekFrom);

#[verifier::external_trait_specification]
#[verifier::external_trait_extension(ReadSpec via ReadSpecImpl)]
pub trait ExRead {
    type ExternalTraitSpecificationFor: std::io::Read;
    spec fn data(&self) -> Seq<u8>;
    spec fn rpos(&self) -> int;
    fn read_exact(&mut self, buf: &mut [u8]) -> (r: Result<(), std::io::Error>);
}
#[verifier::external_trait_specification]
pub trait ExSeek {
    type ExternalTraitSpecificationFor: std::io::Seek;
    fn seek(&mut self, pos: SeekFrom) -> (r: Result<u64, std::io::Error>);
}

// stand-in for the byteorder crate: contract only
pub trait ByteOrder { spec fn big() -> bool; }
pub struct BigEndian;
pub struct LittleEndian;
impl ByteOrder for BigEndian { open spec fn big() -> bool { true } }
impl ByteOrder for LittleEndian { open spec fn big() -> bool { false } }

pub trait ReadBytesExt: Read {
    fn read_i32<B: ByteOrder>(&mut self) -> (r: Result<i32, std::io::Error>);
}
impl<R: Read> ReadBytesExt for R {
    #[verifier::external_body]
    fn read_i32<B: ByteOrder>(&mut self) -> (r: Result<i32, std::io::Error>) { unimplemented!() }
}

pub enum Error {
    IoError(std::io::Error),
    MissingIndexFile,
}
impl vstd::std_specs::convert::FromSpecImpl<std::io::Error> for Error {
    open spec fn obeys_from_spec() -> bool { true }
    open spec fn from_spec(v: std::io::Error) -> Self { Error::IoError(v) }
}
impl From<std::io::Error> for Error {
    fn from(error: std::io::Error) -> Error { Error::IoError(error) }
}

pub exec const INDEX_RECORD_SIZE: usize ensures INDEX_RECORD_SIZE == 8 { 2 * std::mem::size_of::<i32>() }
pub const HEADER_SIZE: i32 = 100;

#[derive(Copy, Clone)]
pub(crate) struct ShapeIndex {
    pub offset: i32,
    pub record_size: i32,
}

pub struct Header { pub file_length: i32 }
impl Header {
    pub fn read_from<T: Read>(mut source: &mut T) -> Result<Header, Error> {
        let file_length = source.read_i32::<BigEndian>()?;
        Ok(Header{file_length})
    }
}

fn read_index_file<T: Read>(mut source: T) -> Result<Vec<ShapeIndex>, Error> {
    let header = Header::read_from(&mut source)?;

    let num_shapes = ((header.file_length * 2) - HEADER_SIZE) / INDEX_RECORD_SIZE as i32;
    let mut shapes_index = Vec::<ShapeIndex>::with_capacity(num_shapes as usize);
    for _ in 0..num_shapes {
        let offset = source.read_i32::<BigEndian>()?;
        let record_size = source.read_i32::<BigEndian>()?;
        shapes_index.push(ShapeIndex {
            offset,
            record_size,
        });
    }
    Ok(shapes_index)
}

pub struct ShapeReader<T> {
    source: T,
    header: Header,
    shapes_index: Option<Vec<ShapeIndex>>,
}

impl<T: Read + Seek> ShapeReader<T> {
    pub fn seek(&mut self, index: usize) -> Result<(), Error> {
        if let Some(ref shapes_index) = self.shapes_index {
            let offset = shapes_index
                .get(index)
                .map(|shape_idx| (shape_idx.offset * 2) as u64);

            match offset {
                Some(n) => self.source.seek(SeekFrom::Start(n)),
                None => self.source.seek(SeekFrom::End(0)),
            }?;
            Ok(())
        } else {
            Err(Error::MissingIndexFile)
        }
    }
    pub fn shape_count(&self) -> Result<usize, Error> {
        if let Some(ref shapes_index) = self.shapes_index {
            Ok(shapes_index.len())
        } else {
            Err(Error::MissingIndexFile)
        }
    }
}

pub struct ShapeIterator<'a, T: Read> {
    source: &'a mut T,
    current_pos: usize,
    file_length: usize,
    shapes_indices: Option<std::slice::Iter<'a, ShapeIndex>>,
}

impl<T: Read + Seek> ShapeIterator<'_, T> {
    fn next(&mut self) -> Option<Result<i32, Error>> {
        if self.current_pos >= self.file_length {
            None
        } else {
            if let Some(ref mut shapes_indices) = self.shapes_indices {
                let start_pos = shapes_indices.next()?.offset * 2;
                if start_pos != self.current_pos as i32 {
                    if let Err(err) = self.source.seek(SeekFrom::Start(start_pos as u64)) {
                        return Some(Err(err.into()));
                    }
                    self.current_pos = start_pos as usize;
                }
            }
            let hdr = match self.source.read_i32::<BigEndian>() {
                Err(e) => return Some(Err(e.into())),
                Ok(hdr_and_shape) => hdr_and_shape,
            };
            self.current_pos += 8;
            self.current_pos += hdr as usize * 2;
            Some(Ok(hdr))
        }
    }
}

} // verus!
fn main() {}
