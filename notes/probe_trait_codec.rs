use vstd::prelude::*;
use std::io::{Write};
use std::mem::size_of;
verus! {
global size_of usize == 8;
global size_of f64 == 8;
pub mod p {
use super::*;


#[verifier::external_type_specification]
#[verifier::external_body]
pub struct ExIoError(std::io::Error);

pub open spec fn splice(s: Seq<u8>, p: nat, b: Seq<u8>) -> Seq<u8> {
    let pre = if p <= s.len() { s.take(p as int) } else { s + Seq::new((p - s.len()) as nat, |i: int| 0u8) };
    let post = if p + b.len() <= s.len() { s.skip((p + b.len()) as int) } else { Seq::<u8>::empty() };
    pre + b + post
}
pub broadcast proof fn lemma_splice_end(s: Seq<u8>, p: nat, b: Seq<u8>)
    requires p == s.len()
    ensures #[trigger] splice(s, p, b) == s + b
{
    assert(splice(s, p, b) =~= s + b);
}
/// destination is in "append position": cursor at end
pub open spec fn at_end<W: Write>(w: &W) -> bool { w.wpos() == w.out().len() }

#[verifier::external_trait_specification]
#[verifier::external_trait_extension(WriteSpec via WriteSpecImpl)]
pub trait ExWrite {
    type ExternalTraitSpecificationFor: std::io::Write;
    spec fn out(&self) -> Seq<u8>;
    spec fn wpos(&self) -> nat;
    fn write_all(&mut self, buf: &[u8]) -> (r: Result<(), std::io::Error>)
        ensures
            r is Ok ==> (*final(self)).out() == splice((*old(self)).out(), (*old(self)).wpos(), buf@)
                && (*final(self)).wpos() == (*old(self)).wpos() + buf@.len();
}

// ---- contract-only stand-in for the byteorder crate
pub uninterp spec fn le_f64(x: f64) -> Seq<u8>;
pub uninterp spec fn be_f64(x: f64) -> Seq<u8>;
pub broadcast axiom fn ax_le_f64_len(x: f64) ensures (#[trigger] le_f64(x)).len() == 8;
pub trait ByteOrder { spec fn big() -> bool; }
pub struct BigEndian;
pub struct LittleEndian;
impl ByteOrder for BigEndian { open spec fn big() -> bool { true } }
impl ByteOrder for LittleEndian { open spec fn big() -> bool { false } }
pub trait WriteBytesExt: Write {
    fn write_f64<B: ByteOrder>(&mut self, n: f64) -> (r: Result<(), std::io::Error>)
        ensures r is Ok ==> (*final(self)).out() == splice((*old(self)).out(), (*old(self)).wpos(), if B::big() { be_f64(n) } else { le_f64(n) })
                && (*final(self)).wpos() == (*old(self)).wpos() + 8;
}
impl<R: Write> WriteBytesExt for R {
    #[verifier::external_body]
    fn write_f64<B: ByteOrder>(&mut self, n: f64) -> (r: Result<(), std::io::Error>) { unimplemented!() }
}

pub enum Error { IoError(std::io::Error), Other }
impl vstd::std_specs::convert::FromSpecImpl<std::io::Error> for Error {
    open spec fn obeys_from_spec() -> bool { true }
    open spec fn from_spec(v: std::io::Error) -> Self { Error::IoError(v) }
}
impl From<std::io::Error> for Error { fn from(error: std::io::Error) -> Error { Error::IoError(error) } }

pub broadcast group g_prelude { vstd::layout::group_layout_axioms, ax_le_f64_len, lemma_splice_end }
} // mod p

use p::*;
broadcast use g_prelude;

pub trait WritableShape {
    spec fn enc(&self) -> Seq<u8>;                       // injected
    fn size_in_bytes(&self) -> (r: usize)
        ensures r == self.enc().len();                   // injected [C18]
    fn write_to<T: Write>(&self, dest: &mut T) -> (r: Result<(), Error>)
        requires at_end(&*old(dest)),                    // injected
        ensures r is Ok ==> (*final(dest)).out() =~= (*old(dest)).out() + self.enc() && at_end(&*final(dest));   // injected [C02,C18]
}

pub struct PointZ { pub x: f64, pub y: f64, pub z: f64, pub m: f64 }

impl WritableShape for PointZ {
    open spec fn enc(&self) -> Seq<u8> { le_f64(self.x) + le_f64(self.y) + le_f64(self.z) + le_f64(self.m) }   // injected (ESRI whitepaper p.15)
    fn size_in_bytes(&self) -> usize {
        assert(size_of::<f64>() == 8);
        assert(le_f64(self.x).len() == 8);
        assert(self.enc().len() == 32);
        4 * size_of::<f64>()
    }

    fn write_to<T: Write>(&self, dest: &mut T) -> Result<(), Error> {
        dest.write_f64::<LittleEndian>(self.x)?;
        assert(LittleEndian::big() == false);
        assert((*dest).out() == (*old(dest)).out() + le_f64(self.x));
        assert((*dest).wpos() == (*dest).out().len());
        dest.write_f64::<LittleEndian>(self.y)?;
        dest.write_f64::<LittleEndian>(self.z)?;
        dest.write_f64::<LittleEndian>(self.m)?;
        Ok(())
    }
}

fn freefn(p: &PointZ) {
    assert(size_of::<f64>() == 8);
    assert(le_f64(p.x).len() == 8);
}
}
fn main(){}
