use vstd::prelude::*;
use vstd::float::*;
verus! {
pub struct S { pub x: f64 }
pub open spec fn le_u64(u: u64) -> Seq<u8> { Seq::new(8, |i: int| ((u >> ((8 * i) as u64)) & 0xff) as u8) }
pub open spec fn le_f64(x: f64) -> Seq<u8> { le_u64(x.to_bits_spec()) }
fn free(s: &S) { assert(le_f64(s.x).len() == 8); }
pub uninterp spec fn f64_of_bits(b: u64) -> f64;
pub broadcast axiom fn ax_bits_rt(b: u64) ensures (#[trigger] f64_of_bits(b)).to_bits_spec() == b;

}
fn main(){}
