// kept for the record: both harnesses exceed 13 min / run out of memory in CBMC (Vec collect chains)

fn c(x: f64, y: f64) -> geo_types::Coord<f64> {
    geo_types::Coord { x, y }
}

/// BOUNDED: polygon [Outer A + hole a, Outer B] -> MultiPolygon [(A,[a]), (B,[])] -> back: same rings, same order
#[kani::proof]
#[kani::unwind(10)]
fn k20_polygon_nesting() {
    let a = vec![Point::new(0.0, 0.0), Point::new(0.0, 9.0), Point::new(9.0, 9.0), Point::new(0.0, 0.0)]; // clockwise
    let h = vec![Point::new(1.0, 2.0), Point::new(3.0, 4.0), Point::new(1.0, 5.0), Point::new(1.0, 2.0)]; // counter-clockwise
    let b = vec![Point::new(20.0, 20.0), Point::new(20.0, 29.0), Point::new(29.0, 29.0), Point::new(20.0, 20.0)];
    let poly = Polygon::with_rings(vec![PolygonRing::Outer(a.clone()), PolygonRing::Inner(h.clone()), PolygonRing::Outer(b.clone())]);
    let mp: geo_types::MultiPolygon<f64> = poly.clone().into();
    assert!(mp.0.len() == 2);
    assert!(mp.0[0].interiors().len() == 1 && mp.0[1].interiors().len() == 0);
    assert!(mp.0[0].exterior().0.len() == 4 && mp.0[0].exterior().0[1] == c(0.0, 9.0));
    assert!(mp.0[0].interiors()[0].0[1] == c(3.0, 4.0));
    assert!(mp.0[1].exterior().0[2] == c(29.0, 29.0));
    let back: Polygon = mp.into();
    assert!(back == poly);
}

/// BOUNDED: polyline with two parts <-> MultiLineString, multipoint <-> MultiPoint: order and grouping kept
#[kani::proof]
#[kani::unwind(10)]
fn k20_lines_and_points() {
    let pl = Polyline::with_parts(vec![
        vec![Point::new(1.0, 2.0), Point::new(3.0, 4.0)],
        vec![Point::new(5.0, 6.0), Point::new(7.0, 8.0), Point::new(9.0, 10.0)],
    ]);
    let ml: geo_types::MultiLineString<f64> = pl.clone().into();
    assert!(ml.0.len() == 2 && ml.0[0].0.len() == 2 && ml.0[1].0.len() == 3);
    assert!(ml.0[1].0[2] == c(9.0, 10.0) && ml.0[0].0[0] == c(1.0, 2.0));
    let back: Polyline = ml.into();
    assert!(back == pl);
    let mp = Multipoint::new(vec![Point::new(1.0, 2.0), Point::new(3.0, 4.0)]);
    let g: geo_types::MultiPoint<f64> = mp.clone().into();
    assert!(g.0.len() == 2 && g.0[1].x() == 3.0 && g.0[1].y() == 4.0);
    let back: Multipoint = g.into();
    assert!(back == mp);
}

// (later session) one direction at a time works (see kani/geo_conv.rs); this one still runs out of memory:
/// MultiPolygon [(A,[a]), (B,[])] -> polygon rings [Outer A, Inner a, Outer B] (same vertices, grouping and order;
/// orientation is the ring constructors' business)
#[kani::proof]
#[kani::unwind(6)]
fn k20_polygon_from_geo() {
    let a = geo_types::LineString(vec![c(0.0, 0.0), c(0.0, 9.0), c(9.0, 9.0), c(0.0, 0.0)]);
    let h = geo_types::LineString(vec![c(1.0, 2.0), c(3.0, 4.0), c(1.0, 5.0), c(1.0, 2.0)]);
    let b = geo_types::LineString(vec![c(20.0, 20.0), c(20.0, 29.0), c(29.0, 29.0), c(20.0, 20.0)]);
    let mp = geo_types::MultiPolygon(vec![geo_types::Polygon::new(a, vec![h]), geo_types::Polygon::new(b, vec![])]);
    let poly: Polygon = mp.into();
    assert!(poly.rings().len() == 3);
    assert!(matches!(poly.rings()[0], PolygonRing::Outer(_)) && matches!(poly.rings()[1], PolygonRing::Inner(_)) && matches!(poly.rings()[2], PolygonRing::Outer(_)));
    assert!(poly.rings()[0].points().len() == 4 && poly.rings()[1].points().len() == 4 && poly.rings()[2].points().len() == 4);
    assert!(poly.rings()[0].points()[1].y == 9.0 && poly.rings()[1].points()[1].x == 3.0 && poly.rings()[2].points()[2].x == 29.0);
}

