use vstd::prelude::*;
use vstd::std_specs::iter::{IteratorSpec};
verus! {
global size_of usize == 8;

pub open spec fn good_clone<T: Iterator + Clone>(it: &T) -> bool {
    forall|c: T| #[trigger] call_ensures(T::clone, (it,), c) ==>
        IteratorSpec::obeys_prophetic_iter_laws(&c) && IteratorSpec::remaining(&c) == IteratorSpec::remaining(it)
        && IteratorSpec::will_return_none(&c) && IteratorSpec::decrease(&c) is Some
}

fn count_parts<'a, T: Iterator<Item=&'a [u8]> + Clone>(it: &T) -> (r: usize)
    requires good_clone(it), IteratorSpec::remaining(it).len() < 1000,
    ensures r == IteratorSpec::remaining(it).len(),
{
    let mut n = 0usize;
    let mut c = it.clone();
    let ghost total = IteratorSpec::remaining(&c);
    loop
        invariant
            IteratorSpec::obeys_prophetic_iter_laws(&c),
            IteratorSpec::will_return_none(&c),
            IteratorSpec::decrease(&c) is Some,
            n + IteratorSpec::remaining(&c).len() == total.len(),
            total.len() < 1000,
        ensures n == total.len(),
        decreases IteratorSpec::decrease(&c)->0,
    {
        match c.next() {
            None => break,
            Some(s) => { n += 1; }
        }
    }
    n
}

// concrete call site as in Polyline::write_to
fn caller(parts: &Vec<Vec<u8>>) -> usize
    requires parts@.len() < 1000
{
    let parts_iter = parts.iter().map(|part: &Vec<u8>| part.as_slice());
    count_parts(&parts_iter)
}
}
fn main(){}
