// probe: fault injection through a custom Write+Seek sink (finalize fails at one .shx operation, retry succeeds):
// did not finish in 23 minutes with a symbolic fault position and not in 20 minutes with two positions (the error path
// through std::io::Error and the crate's Error is expensive for CBMC). Not registered. Uses be32/le32/le64 of kani/k_hist.rs.
/// a destination whose `fail_at`-th operation (write, seek or flush, counted from 1) fails once
struct FaultMem<'a> {
    buf: &'a mut [u8],
    pos: usize,
    len: usize,
    ops: usize,
    fail_at: usize,
}
impl FaultMem<'_> {
    fn tick(&mut self) -> std::io::Result<()> {
        self.ops += 1;
        if self.ops == self.fail_at {
            Err(std::io::Error::from(std::io::ErrorKind::Other))
        } else {
            Ok(())
        }
    }
}
impl Write for FaultMem<'_> {
    fn write(&mut self, data: &[u8]) -> std::io::Result<usize> {
        self.tick()?;
        let mut i = 0;
        while i < data.len() {
            self.buf[self.pos + i] = data[i];
            i += 1;
        }
        self.pos += data.len();
        if self.pos > self.len {
            self.len = self.pos;
        }
        Ok(data.len())
    }
    fn flush(&mut self) -> std::io::Result<()> {
        self.tick()
    }
}
impl Seek for FaultMem<'_> {
    fn seek(&mut self, to: SeekFrom) -> std::io::Result<u64> {
        self.tick()?;
        self.pos = match to {
            SeekFrom::Start(n) => n as usize,
            SeekFrom::End(d) => (self.len as i64 + d) as usize,
            SeekFrom::Current(d) => (self.pos as i64 + d) as usize,
        };
        Ok(self.pos as u64)
    }
}

/// C12 (bounded): one point written, then a finalize during which one operation on the .shx fails: the call returns
/// the error, a second finalize succeeds, and both files are what an undisturbed run produces
#[kani::proof]
#[kani::unwind(24)]
fn k_hist_finalize_retry_after_shx_fault() {
    let mut shp_buf = [0u8; 140];
    let mut shx_buf = [0u8; 120];
    // operations on the .shx: 1 seek + 14 header writes + 1 entry (2 writes) for the first write_shape = 17, then finalize
    // (a symbolic fault position over all 18 finalize operations did not finish in 23 minutes: two positions are
    // checked, the first seek of the finalize and a write in the middle of the header)
    let k: usize = if kani::any() { 18 } else { 24 };
    {
        let shp = FaultMem { buf: &mut shp_buf[..], pos: 0, len: 0, ops: 0, fail_at: 0 };
        let shx = FaultMem { buf: &mut shx_buf[..], pos: 0, len: 0, ops: 0, fail_at: k };
        let mut w = ShapeWriter::with_shx(shp, shx);
        let r = w.write_shape(&Point::new(1.5, 2.0));
        assert!(r.is_ok());
        std::mem::forget(r);
        let r = w.finalize();
        let failed = r.is_err();
        std::mem::forget(r);
        let r = w.finalize();
        assert!(r.is_ok());
        std::mem::forget(r);
        kani::cover!(failed);
        std::mem::forget(w);
    }
    assert!(be32(&shp_buf, 0) == 9994 && be32(&shp_buf, 24) == 64 && le32(&shp_buf, 32) == 1);
    assert!(be32(&shp_buf, 100) == 1 && be32(&shp_buf, 104) == 10 && le64(&shp_buf, 112) == 1.5f64.to_bits());
    assert!(be32(&shx_buf, 0) == 9994 && be32(&shx_buf, 24) == 54 && le32(&shx_buf, 32) == 1 && be32(&shx_buf, 100) == 50 && be32(&shx_buf, 104) == 10);
}
