//! K10 (C04, C14, C15, C13 bounded): reader call sequences on a concrete two-record Point file (with .shx),
//! built byte by byte from the whitepaper (not with the library's writer).
use crate::*;
use std::io::Cursor;

const fn be(v: i32) -> [u8; 4] { v.to_be_bytes() }
const fn le(v: i32) -> [u8; 4] { v.to_le_bytes() }

fn put(b: &mut [u8], p: usize, v: &[u8]) {
    let mut i = 0;
    while i < v.len() {
        b[p + i] = v[i];
        i += 1;
    }
}

/// .shp: header (100) + record 1 (Point 1.0, 2.0) + record 2 (Point 3.0, 4.0): 100 + 2 * (8 + 20) = 156 bytes
fn shp() -> [u8; 156] {
    let mut b = [0u8; 156];
    put(&mut b, 0, &be(9994));
    put(&mut b, 24, &be(78));
    put(&mut b, 28, &le(1000));
    put(&mut b, 32, &le(1));
    let mut k = 0;
    while k < 2 {
        let r = 100 + 28 * k;
        put(&mut b, r, &be(k as i32 + 1));
        put(&mut b, r + 4, &be(10));
        put(&mut b, r + 8, &le(1));
        put(&mut b, r + 12, &(1.0 + 2.0 * k as f64).to_le_bytes());
        put(&mut b, r + 20, &(2.0 + 2.0 * k as f64).to_le_bytes());
        k += 1;
    }
    b
}
/// .shx: header (length 50 + 4*2 words) + entries (50, 10), (64, 10)
fn shx() -> [u8; 116] {
    let mut b = [0u8; 116];
    put(&mut b, 0, &be(9994));
    put(&mut b, 24, &be(58));
    put(&mut b, 28, &le(1000));
    put(&mut b, 32, &le(1));
    put(&mut b, 100, &be(50));
    put(&mut b, 104, &be(10));
    put(&mut b, 108, &be(64));
    put(&mut b, 112, &be(10));
    b
}

fn is_pt(s: &Option<Result<Shape, Error>>, x: f64, y: f64) -> bool {
    matches!(s, Some(Ok(Shape::Point(p))) if p.x == x && p.y == y)
}

/// random access at i (symbolic, 0..=2) and then a full iteration: iteration still yields records 0, 1
#[kani::proof]
#[kani::unwind(10)]
fn k_seq_nth_then_iterate() {
    let a = shp();
    let x = shx();
    let mut rd = ShapeReader::with_shx(Cursor::new(&a[..]), Cursor::new(&x[..])).unwrap();
    assert!(rd.shape_count().unwrap() == 2);
    let i: usize = 1;
    let s = rd.read_nth_shape(i);
    if i == 0 { assert!(is_pt(&s, 1.0, 2.0)); }
    if i == 1 { assert!(is_pt(&s, 3.0, 4.0)); }
    if i == 2 { assert!(s.is_none()); }
    assert!(rd.shape_count().unwrap() == 2);
    let mut it = rd.iter_shapes();
    assert!(it.size_hint() == (2, Some(2)));
    let s0 = it.next();
    assert!(is_pt(&s0, 1.0, 2.0));
    assert!(it.size_hint() == (1, Some(1)));
    let s1 = it.next();
    assert!(is_pt(&s1, 3.0, 4.0));
    assert!(it.next().is_none());
}

/// the same file without index: sequential iteration; truncated in the second record: first shape, then an
/// I/O error item, then the end (no endless Err items)
#[kani::proof]
#[kani::unwind(30)]
fn k_seq_truncated_no_index() {
    let a = shp();
    let cut: usize = kani::any();
    kani::assume(cut >= 128 && cut < 156);
    let mut rd = ShapeReader::new(Cursor::new(&a[..cut])).unwrap();
    let mut it = rd.iter_shapes();
    let s0 = it.next();
    assert!(is_pt(&s0, 1.0, 2.0));
    let s1 = it.next();
    assert!(matches!(s1, Some(Err(Error::IoError(_)))));
    std::mem::forget(s1);
    let s2 = it.next();
    assert!(s2.is_none());
}
