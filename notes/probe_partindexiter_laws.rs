use vstd::prelude::*;
use vstd::std_specs::iter::{IteratorSpecImpl, IteratorSpec};
verus! {
pub struct PartIndexIter<'a> {
    pub parts_indices: &'a Vec<i32>,
    pub current_part_index: usize,
    pub num_points: i32,
}
pub open spec fn pair_at(parts: Seq<i32>, n: i32, k: int) -> (i32, i32) {
    (parts[k], if k + 1 < parts.len() { parts[k + 1] } else { n })
}
impl<'a> IteratorSpecImpl for PartIndexIter<'a> {
    open spec fn obeys_prophetic_iter_laws(&self) -> bool { self.current_part_index <= self.parts_indices@.len() }
    open spec fn remaining(&self) -> Seq<(i32, i32)> {
        Seq::new((self.parts_indices@.len() - self.current_part_index) as nat,
                 |k: int| pair_at(self.parts_indices@, self.num_points, self.current_part_index + k))
    }
    open spec fn will_return_none(&self) -> bool { true }
    open spec fn decrease(&self) -> Option<nat> { Some((self.parts_indices@.len() - self.current_part_index) as nat) }
}
impl<'a> PartIndexIter<'a> {
    fn new(parts_indices: &'a Vec<i32>, num_points: i32) -> (r: Self)
        ensures r.parts_indices == parts_indices, r.num_points == num_points, r.current_part_index == 0, IteratorSpec::obeys_prophetic_iter_laws(&r), IteratorSpec::remaining(&r) =~= Seq::new(parts_indices@.len(), |k: int| pair_at(parts_indices@, num_points, k))
    {
        Self { parts_indices, current_part_index: 0, num_points }
    }
}
impl Iterator for PartIndexIter<'_> {
    type Item = (i32, i32);

    fn next(&mut self) -> (ret: Option<Self::Item>)
        ensures (*final(self)).parts_indices == (*old(self)).parts_indices, (*final(self)).num_points == (*old(self)).num_points,
                ret is Some ==> (*final(self)).current_part_index == (*old(self)).current_part_index + 1,
                ret is None ==> (*final(self)).current_part_index == (*old(self)).current_part_index,
    {
        if self.current_part_index < self.parts_indices.len() {
            let start_of_part_index = self.parts_indices[self.current_part_index];
            let end_of_part_index = match self.parts_indices.get(self.current_part_index + 1) { Some(x) => *x, None => self.num_points };
            self.current_part_index += 1;
            Some((start_of_part_index, end_of_part_index))
        } else {
            None
        }
    }
}
fn use_it(parts: &Vec<i32>, n: i32) -> (out: Vec<i64>)
    ensures out@.len() == parts@.len(),
            forall|k: int| 0 <= k < out@.len() ==> out@[k] == pair_at(parts@, n, k).1 as i64 - pair_at(parts@, n, k).0 as i64,
{
    let mut out: Vec<i64> = Vec::new();
    let mut it = PartIndexIter::new(parts, n);
    loop
        invariant
            it.parts_indices@ == parts@, it.num_points == n,
            it.current_part_index <= parts@.len(),
            out@.len() == it.current_part_index,
            forall|k: int| 0 <= k < out@.len() ==> out@[k] == pair_at(parts@, n, k).1 as i64 - pair_at(parts@, n, k).0 as i64,
        ensures out@.len() == parts@.len(),
        decreases parts@.len() - it.current_part_index,
    {
        let ghost rem = IteratorSpec::remaining(&it);
        match it.next() {
            None => break,
            Some((start_index, end_index)) => {
                assert(rem.len() > 0);
                assert((start_index, end_index) == rem[0]);
                out.push(end_index as i64 - start_index as i64);
            }
        }
    }
    out
}
}
fn main(){}
