use vstd::prelude::*;
use std::io::{Write, Seek, SeekFrom};
verus! {
global size_of usize == 8;
broadcast use vstd::layout::group_layout_axioms;

#[verifier::external_type_specification]
#[verifier::external_body]
pub struct ExIoError(std::io::Error);
#[verifier::external_type_specification]
pub struct ExSeekFrom(std::io::SeekFrom);

/// positional write: overwrite/extend `s` at `p` with `b` (gap is zero filled)
pub open spec fn splice(s: Seq<u8>, p: nat, b: Seq<u8>) -> Seq<u8> {
    let pre = if p <= s.len() { s.take(p as int) } else { s + Seq::new((p - s.len()) as nat, |i: int| 0u8) };
    let post = if p + b.len() <= s.len() { s.skip((p + b.len()) as int) } else { Seq::<u8>::empty() };
    pre + b + post
}

#[verifier::external_trait_specification]
#[verifier::external_trait_extension(WriteSpec via WriteSpecImpl)]
pub trait ExWrite {
    type ExternalTraitSpecificationFor: std::io::Write;
    spec fn out(&self) -> Seq<u8>;
    spec fn wpos(&self) -> nat;
    spec fn nfail(&self) -> nat;
    fn write_all(&mut self, buf: &[u8]) -> (r: Result<(), std::io::Error>)
        ensures
            r is Ok ==> (*final(self)).out() == splice((*old(self)).out(), (*old(self)).wpos(), buf@)
                && (*final(self)).wpos() == (*old(self)).wpos() + buf@.len()
                && (*final(self)).nfail() == (*old(self)).nfail(),
            r is Err ==> (*final(self)).nfail() == (*old(self)).nfail() + 1;
    fn flush(&mut self) -> (r: Result<(), std::io::Error>)
        ensures
            (*final(self)).out() == (*old(self)).out(),
            (*final(self)).wpos() == (*old(self)).wpos(),
            r is Ok ==> (*final(self)).nfail() == (*old(self)).nfail(),
            r is Err ==> (*final(self)).nfail() == (*old(self)).nfail() + 1;
}

#[verifier::external_trait_specification]
#[verifier::external_trait_extension(SeekSpec via SeekSpecImpl)]
pub trait ExSeek {
    type ExternalTraitSpecificationFor: std::io::Seek;
    spec fn spos(&self) -> nat;
    spec fn sdata(&self) -> Seq<u8>;
    spec fn sfail(&self) -> nat;
    fn seek(&mut self, pos: SeekFrom) -> (r: Result<u64, std::io::Error>)
        ensures
            (*final(self)).sdata() == (*old(self)).sdata(),
            r is Ok ==> (*final(self)).sfail() == (*old(self)).sfail() && match pos {
                SeekFrom::Start(n) => (*final(self)).spos() == n,
                SeekFrom::End(d) => d == 0 ==> (*final(self)).spos() == (*old(self)).sdata().len(),
                SeekFrom::Current(d) => true,
            },
            r is Err ==> (*final(self)).sfail() == (*old(self)).sfail() + 1;
}

pub broadcast axiom fn ax_ws_pos<T: Write + Seek>(t: &T)
    ensures #[trigger] t.wpos() == t.spos();
pub broadcast axiom fn ax_ws_pos2<T: Write + Seek>(t: &T)
    ensures t.wpos() == #[trigger] t.spos();
pub broadcast axiom fn ax_ws_dat<T: Write + Seek>(t: &T)
    ensures #[trigger] t.out() == t.sdata();
pub broadcast axiom fn ax_ws_dat2<T: Write + Seek>(t: &T)
    ensures t.out() == #[trigger] t.sdata();
pub broadcast group ax_ws { ax_ws_pos, ax_ws_pos2, ax_ws_dat, ax_ws_dat2 }

fn demo<T: Write + Seek>(d: &mut T, b: &[u8]) -> (r: Result<(), std::io::Error>)
    requires old(d).out().len() == 0, old(d).wpos() == 0, b@.len() == 4,
    ensures r is Ok ==> (*final(d)).out() =~= b@ + b@ && (*final(d)).wpos() == 8,
{
    broadcast use ax_ws;
    d.write_all(b)?;
    assert(d.out() =~= b@);
    assert(d.wpos() == 4);
    d.write_all(b)?;
    assert(d.out() =~= b@ + b@);
    assert(d.wpos() == 8);
    d.seek(SeekFrom::Start(0))?;
    assert(d.out() =~= b@ + b@);
    assert(d.wpos() == 0);
    d.write_all(b)?;
    assert(d.out() =~= b@ + b@);
    d.seek(SeekFrom::End(0))?;
    assert(d.wpos() == 8);
    Ok(())
}
}
fn main(){}
verus!{
fn demo2<T: Write>(d: &mut T, b: &[u8])
    requires b@.len() == 4,
{
    let ghost p0 = d.wpos();
    let r = d.write_all(b);
    if r.is_ok() {
        assert(d.wpos() == p0 + 4);
    }
}
fn demo3<T: Write>(d: &mut T, b: &[u8]) -> (r: Result<(), std::io::Error>)
    requires b@.len() == 4,
    ensures r is Ok ==> (*final(d)).wpos() == (*old(d)).wpos() + 4
{
    d.write_all(b)?;
    Ok(())
}
}
