use shapefile::{Point, PointZ, ShapeReader, ShapeWriter, NO_DATA};
use std::io::Cursor;
#[test]
fn header_box_with_infinite_and_sentinel_coordinates() {
    let mut shp = Cursor::new(Vec::new());
    {
        let mut w = ShapeWriter::new(&mut shp);
        w.write_shape(&Point::new(f64::INFINITY, f64::NEG_INFINITY)).unwrap();
    }
    shp.set_position(0);
    let r = ShapeReader::new(shp).unwrap();
    let b = r.header().bbox;
    assert_eq!((b.min.x, b.max.x), (f64::INFINITY, f64::INFINITY));
    assert_eq!((b.min.y, b.max.y), (f64::NEG_INFINITY, f64::NEG_INFINITY));
    // a Z file whose only z is f64::MAX and whose measures are real data
    let mut shp = Cursor::new(Vec::new());
    {
        let mut w = ShapeWriter::new(&mut shp);
        w.write_shape(&PointZ::new(1.0, 2.0, f64::MAX, f64::MIN)).unwrap();
    }
    shp.set_position(0);
    let b = ShapeReader::new(shp).unwrap().header().bbox;
    assert_eq!((b.min.z, b.max.z), (f64::MAX, f64::MAX));
    assert!(f64::MIN < NO_DATA);
}
