use shapefile::{Point, Polyline, ShapeReader, ShapeWriter};
use std::io::Cursor;

fn mk(n: usize, equal: bool) -> (Vec<u8>, Vec<u8>, Vec<Polyline>) {
    let mut shp = Cursor::new(Vec::new());
    let mut shx = Cursor::new(Vec::new());
    let mut shapes = Vec::new();
    {
        let mut w = ShapeWriter::with_shx(&mut shp, &mut shx);
        for i in 0..n {
            let k = if equal { 2 } else { 2 + i };
            let pts: Vec<Point> = (0..k).map(|j| Point::new(i as f64, j as f64)).collect();
            let p = Polyline::new(pts);
            w.write_shape(&p).unwrap();
            shapes.push(p);
        }
    }
    (shp.into_inner(), shx.into_inner(), shapes)
}

#[derive(Clone, Copy, Debug)]
enum Op { Iter(usize), Nth(usize), Seek(usize), Count }

fn run(n: usize, equal: bool, depth: usize) {
    let (shp, shx, shapes) = mk(n, equal);
    let mut ops = vec![Op::Count];
    for j in [0usize, 1, 2, usize::MAX] { ops.push(Op::Iter(j)); }
    for i in 0..=n { ops.push(Op::Nth(i)); ops.push(Op::Seek(i)); }
    let mut idx = vec![0usize; depth];
    loop {
        let hist: Vec<Op> = idx.iter().map(|&i| ops[i]).collect();
        let mut r = ShapeReader::with_shx(Cursor::new(shp.clone()), Cursor::new(shx.clone())).unwrap();
        let mut cur = 0usize;
        for op in &hist {
            match *op {
                Op::Count => assert_eq!(r.shape_count().unwrap(), n),
                Op::Nth(i) => {
                    let got = r.read_nth_shape_as::<Polyline>(i);
                    if i < n { assert_eq!(got.unwrap().unwrap(), shapes[i], "{:?}", hist); cur = 0; } else { assert!(got.is_none()); }
                }
                Op::Seek(k) => { r.seek(k).unwrap(); cur = k.min(n); }
                Op::Iter(j) => {
                    let mut it = r.iter_shapes_as::<Polyline>();
                    let mut c = 0;
                    while c < j {
                        match it.next() {
                            None => { assert_eq!(cur, n, "ended early {:?}", hist); break; }
                            Some(s) => { assert!(cur < n, "extra item {:?}", hist); assert_eq!(s.unwrap(), shapes[cur], "{:?}", hist); cur += 1; }
                        }
                        c += 1;
                    }
                }
            }
        }
        let mut k = 0;
        loop {
            if k == depth { return; }
            idx[k] += 1;
            if idx[k] < ops.len() { break; }
            idx[k] = 0; k += 1;
        }
    }
}

#[test] fn histories_distinct() { run(3, false, 4); }
#[test] fn histories_equal() { run(3, true, 4); }

#[test] fn no_index_further_iteration() {
    let (shp, _shx, shapes) = mk(3, false);
    let mut r = ShapeReader::new(Cursor::new(shp)).unwrap();
    { let mut it = r.iter_shapes_as::<Polyline>(); assert_eq!(it.next().unwrap().unwrap(), shapes[0]); }
    let rest: Vec<_> = r.iter_shapes_as::<Polyline>().map(|s| s.unwrap()).collect();
    assert_eq!(rest, shapes[1..].to_vec());
    assert!(r.iter_shapes_as::<Polyline>().next().is_none());
}
