#!/bin/sh
# dev helper: regenerate build/all.rs
cd /verif && python3 tools/extract.py --out build/all.rs --prelude contracts/prelude/p*.rs -- contracts/units/*.vspec
