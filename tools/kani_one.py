#!/usr/bin/env python3
"""dev helper: run named Kani harnesses of /verif/kani on a scratch copy of the repository (VERIF_REPO or /repo)
usage: tools/kani_one.py [--features a,b] harness ..."""
import importlib.machinery, importlib.util, os, sys, json, time
HERE = os.path.dirname(os.path.dirname(os.path.abspath(__file__)))
loader = importlib.machinery.SourceFileLoader("vcheck", os.path.join(HERE, "check"))
spec = importlib.util.spec_from_loader("vcheck", loader)
m = importlib.util.module_from_spec(spec)
sys.argv0 = sys.argv[:]
args = sys.argv[1:]
sys.argv = ["check", "C01"]
m.__name__ = "vcheck"
loader.exec_module(m)
feats = None
if args[:1] == ["--features"]:
    feats = args[1].split(","); args = args[2:]
t = time.time()
r = m.run_kani(args, features=feats)
open("/tmp/kani_one_raw.txt","w").write(str(r.get("_raw",""))); [v.pop("_raw", None) for v in r.values() if isinstance(v, dict)]; r.pop("_raw", None)
print(json.dumps({k: {a: b for a, b in v.items() if a != "log"} if isinstance(v, dict) else v for k, v in r.items()}, indent=1)[:3000]); print("wall %.1fs" % (time.time() - t))
