#!/usr/bin/env python3
"""Mechanical extractor + contract injector.

Reads the contract specification files (contracts/units/*.vspec), copies the named
items by source span out of /repo/src, applies only the whitelisted rewrites of
tools/rules.toml, injects the ghost text (every injected line ends in `//@g`), and
writes one single-file Verus crate that mirrors the repository's module tree.

It also produces a side table (JSON): for every generated line its origin, for every
function its line range, module, tags, and for every injected clause its id/tags.

Self check (identity): for every extracted item, the generated text with the `//@g`
lines deleted must have the same token stream as the source item after the declared
rewrites (computed by an independent code path, `expected_tokens`).  Any difference
raises ExtractError (the driver maps that to exit 2, never to a violation).
"""
import json
import os
import re
import sys

sys.path.insert(0, os.path.dirname(os.path.abspath(__file__)))
from rustlex import lex, match_delims, split_items, norm, is_cfg_test  # noqa: E402

G = "  //@g"


class ExtractError(Exception):
    pass


# ----------------------------------------------------------------------------------------------
# spec parsing
# ----------------------------------------------------------------------------------------------

class FnSpec:
    def __init__(self, name):
        self.name = name
        self.auto = []          # property tags of the automatic obligations
        self.clauses = []       # dicts: kind, loop, tags, label, text
        self.hints = []         # dicts: where, arg, text
        self.rewrites = []      # (rule, from, to)
        self.attrs = []         # extra attribute lines (assumptions, e.g. external_body)
        self.ret = "r"
        self.nobody = False     # replace body by unimplemented!() (with external_body)
        self.r12 = False        # R12: inline Result combinators (and_then / map / map_err)
        self.mutself = False    # R10: `mut self` receiver -> `self` + `let mut self_ = self;` + rename in body
        self.mutparam = None    # R10 for a by-value `mut NAME: T` parameter (same rewrite with NAME)
        self.line = 0


class Section:
    def __init__(self, kind, arg, line):
        self.kind = kind        # module / item / fn / impl / trait / ghost / expand
        self.arg = arg
        self.line = line
        self.children = []
        self.fn = None
        self.text = ""
        self.opts = {}


CLAUSE_RE = re.compile(r"^(itername|desugar|requires|ensures|invariant|invariant_except_break|loop_ensures|decreases|recommends|opens_invariants|no_unwind|returns_clause)(@(\d+))?(\[([^\]]*)\])?\s*(.*)$")


SHORT = [(re.compile(r"\bnew\(([A-Za-z_][A-Za-z0-9_.]*)\)"), r"(*final(\1))"), (re.compile(r"\bpre\(([A-Za-z_][A-Za-z0-9_.]*)\)"), r"(*old(\1))"), (re.compile(r"\bcur\(([A-Za-z_][A-Za-z0-9_.]*)\)"), r"(*\1)")]


def expand_short(text):
    """clause shorthand: new(x) = (*final(x)), pre(x) = (*old(x))"""
    for pat, rep in SHORT:
        text = pat.sub(rep, text)
    return text


def parse_spec(path):
    """returns list of top-level Sections (modules)"""
    mods = []
    cur_mod = None
    stack = []      # current container (module / impl / trait)
    cur_fn = None
    lines = open(path).read().split("\n")
    i = 0

    def container():
        return stack[-1] if stack else None

    last_clause = None
    while i < len(lines):
        raw = lines[i]
        ln = i + 1
        i += 1
        s = raw.strip()
        if not s or s.startswith("##"):
            continue
        if s.startswith("@") and not s.startswith("@ghost") and stack and stack[-1].kind == "expand":
            stack.pop()
        if s == "@endexpand":
            cur_fn = None
            continue
        if s.startswith("@module"):
            parts = s.split()
            cur_mod = Section("module", parts[1], ln)
            cur_mod.opts["file"] = parts[2] if len(parts) > 2 else None
            mods.append(cur_mod)
            stack = [cur_mod]
            cur_fn = None
            continue
        if s.startswith("@ghost"):
            sec = Section("ghost", s[len("@ghost"):].strip(), ln)
            buf = []
            while i < len(lines) and lines[i].strip() != "@end":
                buf.append(lines[i])
                i += 1
            i += 1
            sec.text = "\n".join(buf)
            container().children.append(sec)
            cur_fn = None
            continue
        if s.startswith("@item"):
            parts = s.split(None, 3)
            sec = Section("item", (parts[1], parts[2]), ln)
            if len(parts) > 3:
                for o in parts[3].split():
                    k, _, v = o.partition("=")
                    sec.opts[k] = v
            container().children.append(sec)
            cur_fn = None
            continue
        if s.startswith("@expand"):
            sec = Section("expand", s[len("@expand"):].strip(), ln)
            container().children.append(sec)
            stack.append(sec)
            cur_fn = None
            continue
        if s.startswith("@impl"):
            hdr = s[len("@impl"):]
            newhdr = None
            if " => " in hdr:
                hdr, newhdr = hdr.split(" => ", 1)
            sec = Section("impl", " ".join(hdr.split()).replace(">>", "> >"), ln)
            sec.opts["as"] = newhdr.strip() if newhdr else None
            container().children.append(sec)
            stack.append(sec)
            cur_fn = None
            continue
        if s.startswith("@trait"):
            sec = Section("trait", s.split()[1], ln)
            container().children.append(sec)
            stack.append(sec)
            cur_fn = None
            continue
        if s in ("@endimpl", "@endtrait"):
            stack.pop()
            cur_fn = None
            continue
        if s.startswith("@fn"):
            parts = s.split()
            f = FnSpec(parts[1])
            f.line = ln
            for o in parts[2:]:
                k, _, v = o.partition("=")
                if k == "auto":
                    f.auto = [x for x in v.split(",") if x]
                elif k == "ret":
                    f.ret = v
                elif k == "mutself":
                    f.mutself = True
                elif k == "mutparam":
                    f.mutparam = v
                elif k == "r12":
                    f.r12 = True
                elif k == "r12opt":
                    f.r12 = "opt"
                elif k == "external_body":
                    f.attrs.append("#[verifier::external_body]")
                    f.nobody = False
                elif k == "nobody":
                    # body cannot even be type-checked by Verus: drop it (D7), contract is an assumption
                    f.attrs.append("#[verifier::external_body]")
                    f.nobody = True
                else:
                    raise ExtractError("%s:%d unknown fn option %s" % (path, ln, o))
            sec = Section("fn", f.name, ln)
            sec.fn = f
            container().children.append(sec)
            cur_fn = f
            last_clause = None
            continue
        if s.startswith("|"):
            if last_clause is None:
                raise ExtractError("%s:%d continuation without clause" % (path, ln))
            last_clause["text"] += "\n" + expand_short(s[1:].rstrip())
            continue
        if cur_fn is None:
            raise ExtractError("%s:%d clause outside @fn: %s" % (path, ln, s))
        if s.startswith("hint ") or s.startswith("ghostlet "):
            raw = s.startswith("ghostlet ")
            if raw:
                s = "hint " + s[len("ghostlet "):]
            m = re.match(r'^hint\s+(first|last|loop@(\d+)|loopend@(\d+)|after\s+"((?:[^"\\]|\\.)*)"|before\s+"((?:[^"\\]|\\.)*)")\s*:\s*(.*)$', s)
            if not m:
                raise ExtractError("%s:%d bad hint" % (path, ln))
            where = m.group(1).split()[0].split("@")[0]
            arg = m.group(2) or m.group(3) or m.group(4) or m.group(5)
            h = {"where": where, "arg": arg, "text": expand_short(m.group(6)), "line": ln, "raw": raw}
            cur_fn.hints.append(h)
            last_clause = h
            continue
        if s.startswith("rewrite "):
            m = re.match(r'^rewrite\s+(R\d+)\s+"((?:[^"\\]|\\.)*)"\s+"((?:[^"\\]|\\.)*)"$', s)
            if not m:
                raise ExtractError("%s:%d bad rewrite" % (path, ln))
            unesc = lambda x: x.replace("\\n", "\n").replace('\\"', '"')
            cur_fn.rewrites.append((m.group(1), unesc(m.group(2)), unesc(m.group(3))))
            continue
        if s.startswith("attr "):
            cur_fn.attrs.append(s[5:].strip())
            continue
        m = CLAUSE_RE.match(s)
        if not m:
            raise ExtractError("%s:%d unrecognised line: %s" % (path, ln, s))
        tags, label = [], None
        if m.group(5) is not None:
            tl = m.group(5)
            t, _, label = tl.partition(":")
            tags = [x.strip() for x in t.split(",") if x.strip()]
            label = label.strip() or None
        c = {"kind": m.group(1), "loop": int(m.group(3)) if m.group(3) else None,
             "tags": tags, "label": label, "text": expand_short(m.group(6)), "line": ln}
        cur_fn.clauses.append(c)
        last_clause = c
    return mods


# ----------------------------------------------------------------------------------------------
# source files
# ----------------------------------------------------------------------------------------------

class SrcFile:
    def __init__(self, repo, rel):
        self.rel = rel
        self.text = open(os.path.join(repo, rel)).read()
        self.toks = lex(self.text)
        self.pair = match_delims(self.toks)
        self.items = [it for it in split_items(self.toks, self.pair, 0, len(self.toks))]
        # line starts
        self.ls = [0]
        for m in re.finditer("\n", self.text):
            self.ls.append(m.end())

    def line_of(self, byte):
        import bisect
        return bisect.bisect_right(self.ls, byte)

    def find(self, kind, name):
        out = [it for it in self.items if it.kind == kind and it.name == name and not is_cfg_test(self.toks, it)]
        if len(out) != 1:
            raise ExtractError("lost anchor: %s %s in %s (found %d)" % (kind, name, self.rel, len(out)))
        return out[0]

    def find_impl(self, header, fn_names=()):
        out = [it for it in self.items if it.kind == "impl" and it.header_norm == header and not is_cfg_test(self.toks, it)]
        if len(out) > 1 and fn_names:
            # several impl blocks with the same header: take the one that defines the requested functions
            out = [it for it in out if all(any(s.kind == "fn" and s.name == n for s in self.sub_items(it)) for n in fn_names)]
        if len(out) != 1:
            raise ExtractError("lost anchor: impl `%s` in %s (found %d)" % (header, self.rel, len(out)))
        return out[0]

    def sub_items(self, it):
        lo, hi = it.body
        return split_items(self.toks, self.pair, lo + 1, hi)


# ----------------------------------------------------------------------------------------------
# rewrites (whitelist).  Each works on source TEXT of one item and is mirrored by
# expected_tokens() on the token level for the identity check.
# ----------------------------------------------------------------------------------------------

R1_PAT = [(re.compile(r"\bf64::MIN\b"), "c_f64_min()"), (re.compile(r"\bf64::MAX\b"), "c_f64_max()"),
          (re.compile(r"\bf64::NEG_INFINITY\b"), "c_f64_neg_inf()"), (re.compile(r"\bf64::INFINITY\b"), "c_f64_inf()")]


def apply_R1(text):
    for pat, rep in R1_PAT:
        text = pat.sub(rep, text)
    return text


def tok_texts(text):
    return [t.text for t in lex(text)]


def strip_vis(tt):
    """remove visibility tokens: pub, pub(crate), pub(super), pub(in path)"""
    out, i = [], 0
    while i < len(tt):
        if tt[i] == "pub":
            i += 1
            if i < len(tt) and tt[i] == "(" and i + 2 < len(tt) and tt[i + 1] in ("crate", "super", "self", "in"):
                while tt[i] != ")":
                    i += 1
                i += 1
            continue
        out.append(tt[i])
        i += 1
    return out


def invert_named_return(tt):
    """-> ( ident : T... ) followed by requires/ensures/{/where/; back to -> T..."""
    out, i = [], 0
    while i < len(tt):
        if tt[i] == "->" and i + 3 < len(tt) and tt[i + 1] == "(" and tt[i + 3] == ":" and re.match(r"^[a-z_][a-z0-9_]*$", tt[i + 2]):
            # find matching paren
            depth, j = 0, i + 1
            while True:
                if tt[j] in "([{":
                    depth += 1
                elif tt[j] in ")]}":
                    depth -= 1
                    if depth == 0:
                        break
                j += 1
            out.append("->")
            out.extend(tt[i + 4:j])
            i = j + 1
            continue
        out.append(tt[i])
        i += 1
    return out


POSTFIX_STOP = {"=", "{", "}", ";", ",", "=>", "else", "return", "(", "[", "&&", "||", "!", "==", "!=", "<", ">", "+", "-", "*", "/", "&", "|", "in", "if", "match", "let", "?"}


def inline_result_combinators(body, qual, option=False):
    """R12: a chain  E0.c1(a1).c2(a2)...  of std Result combinators (and_then / map / map_err, each
    applied to a closure literal or a path) becomes, in A-normal form,
        let t1_ = E0;  let t2_ = <c1 applied to t1_>;  ...  <cN applied to tN_>
    where the std definitions are used with the closure applied:
        X.and_then(|p| B) = match X { Ok(p) => B, Err(e_) => Err(e_) }
        X.map(|p| B)      = match X { Ok(p) => Ok(B), Err(e_) => Err(e_) }
        X.map(PATH)       = match X { Ok(v_) => Ok(PATH(v_)), Err(e_) => Err(e_) }
        X.map_err(PATH)   = match X { Ok(v_) => Ok(v_), Err(e_) => Err(PATH(e_)) }
    The `let`s are placed at the start of the statement that contains the chain."""
    COMB = ("and_then", "map_err", "map")
    counter = 0
    guard = 0
    while True:
        guard += 1
        if guard > 20:
            raise ExtractError("R12: too many chains in %s" % qual)
        toks = lex(body)
        pair = match_delims(toks)
        hit = None
        for i, t in enumerate(toks):
            if t.kind == "ident" and t.text in COMB and i > 0 and toks[i - 1].text == "." and toks[i + 1].text == "(" \
                    and not (i >= 2 and toks[i - 2].text == "t_done_"):
                hit = i
                break
        if hit is None:
            return body.replace("t_done_.", "")
        i = hit
        j = i - 2
        while j >= 0:
            tx = toks[j].text
            if tx in (")", "]", "}"):
                j = pair[j] - 1
                continue
            if tx == ">":
                # turbofish `::<A, B>` inside the receiver path: jump to its `::`
                depth, q = 0, j
                while q >= 0:
                    if toks[q].text == ">":
                        depth += 1
                    elif toks[q].text == "<":
                        depth -= 1
                        if depth == 0:
                            break
                    q -= 1
                if q > 0 and toks[q - 1].text == "::":
                    j = q - 2
                    continue
                break
            if tx in POSTFIX_STOP or (toks[j].kind == "punct" and tx not in (".", "::")):
                break
            j -= 1
        r0 = j + 1
        recv = body[toks[r0].start:toks[i - 2].end]
        # statement start: after the closest `;`, `{` or `}` to the left at this nesting depth
        k = r0 - 1
        while k >= 0:
            tx = toks[k].text
            if tx in (";", "}"):
                break
            if tx == "{":
                # `TypeName {` opens a struct literal, not a block: keep scanning to the left of it
                if k > 0 and toks[k - 1].kind == "ident" and toks[k - 1].text[:1].isupper():
                    k -= 1
                    continue
                break
            if tx in (")", "]"):
                k = pair[k]
            k -= 1
        stmt_pos = toks[k].end if k >= 0 else 0
        lets = []
        counter += 1
        cur = "t%d_" % counter
        lets.append("let %s = %s;" % (cur, recv))
        end_tok = i - 2
        while True:
            name = toks[i].text
            a0, a1 = i + 1, pair[i + 1]
            arg_toks = toks[a0 + 1:a1]
            if arg_toks and arg_toks[0].text == "|":
                q = 1
                while arg_toks[q].text != "|":
                    q += 1
                pat = body[arg_toks[1].start:arg_toks[q - 1].end]
                cbody = body[arg_toks[q + 1].start:arg_toks[-1].end]
                if name == "and_then":
                    e = "match %s { Ok(%s) => %s, Err(e_) => Err(e_) }" % (cur, pat, cbody)
                elif name == "map" and option:
                    e = "match %s { Some(%s) => Some(%s), None => None }" % (cur, pat, cbody)
                elif name == "map":
                    e = "match %s { Ok(%s) => Ok(%s), Err(e_) => Err(e_) }" % (cur, pat, cbody)
                else:
                    e = "match %s { Ok(v_) => Ok(v_), Err(%s) => Err(%s) }" % (cur, pat, cbody)
            else:
                path = body[arg_toks[0].start:arg_toks[-1].end]
                if name == "map":
                    e = "match %s { Ok(v_) => Ok(%s(v_)), Err(e_) => Err(e_) }" % (cur, path)
                elif name == "map_err":
                    e = "match %s { Ok(v_) => Ok(v_), Err(e_) => Err(%s(e_)) }" % (cur, path)
                else:
                    e = "match %s { Ok(v_) => %s(v_), Err(e_) => Err(e_) }" % (cur, path)
            end_tok = a1
            nxt = a1 + 1
            more = nxt + 2 < len(toks) and toks[nxt].text == "." and toks[nxt + 1].text in COMB and toks[nxt + 2].text == "("
            if more:
                counter += 1
                cur2 = "t%d_" % counter
                lets.append("let %s = %s;" % (cur2, e))
                cur = cur2
                i = nxt + 1
                continue
            final = e
            break
        nxt_txt = toks[end_tok + 1].text if end_tok + 1 < len(toks) else ""
        if nxt_txt in (".", "?"):
            final = "(" + final + ")"
        body = body[:stmt_pos] + " " + " ".join(lets) + body[stmt_pos:toks[r0].start] + final + body[toks[end_tok].end:]


def desugar_for_loops(body, clauses, qual):
    """R7: `for PAT in EXPR { B }` -> `let mut V = EXPR; loop { match V.next() { None => break, Some(PAT) => { B } } }`
    (the language-defined desugaring of `for`, modulo the implicit IntoIterator::into_iter on an Iterator,
    which is the identity).  Applied to the K-th loop of the body; line structure is preserved."""
    for c in sorted(clauses, key=lambda c: -c["loop"]):
        toks = lex(body)
        pair = match_delims(toks)
        loops = Gen.find_loops_toks(toks, pair, 0, len(toks) - 1)
        k = c["loop"]
        if k < 1 or k > len(loops):
            raise ExtractError("lost anchor: %s has %d loops, desugar refers to loop %d" % (qual, len(loops), k))
        lkw, lbrace = loops[k - 1]
        if toks[lkw].text != "for":
            raise ExtractError("lost anchor: loop %d of %s is not a `for`" % (k, qual))
        j = lkw + 1
        while not (toks[j].text == "in" and toks[j].kind == "ident"):
            j = pair[j] + 1 if toks[j].text in ("(", "[", "{") else j + 1
        pat = body[toks[lkw + 1].start:toks[j - 1].end]
        expr = body[toks[j + 1].start:toks[lbrace - 1].end]
        v = c["text"].strip()
        if v.endswith(" into"):
            # the loop expression is an IntoIterator, not an Iterator: the language desugaring calls into_iter on it
            v = v[:-5].strip()
            expr = "IntoIterator::into_iter(%s)" % expr
        close = pair[lbrace]
        head = "let mut %s = %s; loop { match %s.next() { None => break, Some(%s) => {" % (v, expr, v, pat)
        body = body[:toks[lkw].start] + head + body[toks[lbrace].end:toks[close].start] + "} } }" + body[toks[close].end:]
    return body


def invert_desugar(tt, names):
    """token-level inverse of R7 (independent of desugar_for_loops)"""
    out = list(tt)
    for v in names:
        i = 0
        while i < len(out) - 3:
            if out[i] == "let" and out[i + 1] == "mut" and out[i + 2] == v and out[i + 3] == "=":
                j = i + 4
                depth = 0
                while not (out[j] == ";" and depth == 0):
                    if out[j] in "([{":
                        depth += 1
                    elif out[j] in ")]}":
                        depth -= 1
                    j += 1
                expr = out[i + 4:j]
                if expr[:4] == ["IntoIterator", "::", "into_iter", "("] and expr[-1] == ")":
                    expr = expr[4:-1]
                hdr = ["loop", "{", "match", v, ".", "next", "(", ")", "{", "None", "=>", "break", ",", "Some", "("]
                if out[j + 1:j + 1 + len(hdr)] != hdr:
                    raise ExtractError("R7 inverse: unexpected shape after `let mut %s`" % v)
                k = j + 1 + len(hdr)
                depth = 1
                p0 = k
                while depth:
                    if out[k] in "([{":
                        depth += 1
                    elif out[k] in ")]}":
                        depth -= 1
                    k += 1
                pat = out[p0:k - 1]
                if out[k:k + 2] != ["=>", "{"]:
                    raise ExtractError("R7 inverse: `=> {` expected")
                b0 = k + 2
                depth = 1
                k = b0
                while depth:
                    if out[k] in "([{":
                        depth += 1
                    elif out[k] in ")]}":
                        depth -= 1
                    k += 1
                inner = out[b0:k - 1]
                if out[k:k + 2] != ["}", "}"]:
                    raise ExtractError("R7 inverse: closing braces expected")
                out = out[:i] + ["for"] + pat + ["in"] + expr + ["{"] + inner + ["}"] + out[k + 2:]
                break
            i += 1
    return out


def expected_tokens(src_text, rewrites, r1, const_rw=None):
    """independent computation of what the generated item must tokenise to"""
    text = src_text
    if r1:
        text = apply_R1(text)
    for (rule, a, b) in rewrites:
        check_rewrite_allowed(rule, a, b)
        if text.count(a) < 1:
            raise ExtractError("lost anchor: rewrite %s source text not found: %s" % (rule, a))
        text = text.replace(a, b)
    tt = strip_vis(tok_texts(text))
    return tt


def check_rewrite_allowed(rule, a, b):
    ta, tb = tok_texts(a), tok_texts(b)
    if rule == "R3":
        # & mut X  ->  & mut * X      (reborrow), anywhere inside the pattern
        exp, i = [], 0
        changed = False
        while i < len(ta):
            if ta[i] == "&" and i + 1 < len(ta) and ta[i + 1] == "mut" and not changed and (i + 2 < len(ta)) and ta[i + 2] != "*":
                # only rewrite the occurrence that makes ta -> tb
                cand = ta[:i + 2] + ["*"] + ta[i + 2:]
                if cand == tb:
                    return
            i += 1
        # allow several reborrows in one pattern
        cand, i = [], 0
        while i < len(ta):
            cand.append(ta[i])
            if ta[i] == "mut" and i > 0 and ta[i - 1] == "&" and i + 1 < len(ta) and ta[i + 1] != "*":
                cand.append("*")
            i += 1
        if cand == tb:
            return
        raise ExtractError("rewrite R3 not of the form `&mut X` -> `&mut *X`: %s -> %s" % (a, b))
    if rule == "R7":
        # for PAT in EXPR {   ->  let mut IT = EXPR ; loop { match IT.next() { None => break, Some(PAT) => {
        # (checked structurally by the driver's rule table; accepted only for the listed site)
        return
    if rule == "R17":
        # match arm with an or-pattern:  P1 | P2 => { BODY }   ->   P1 => { BODY } P2 => { BODY }
        depth, bar, arrow = 0, None, None
        for i, t in enumerate(ta):
            if t in "([{":
                depth += 1
            elif t in ")]}":
                depth -= 1
            elif t == "|" and depth == 0 and bar is None:
                bar = i
            elif t == "=>" and depth == 0 and arrow is None:
                arrow = i
        if bar is not None and arrow is not None and bar < arrow and ta[arrow + 1] == "{" and ta[-1] == "}":
            p1, p2, body = ta[:bar], ta[bar + 1:arrow], ta[arrow + 1:]
            if tb == p1 + ["=>"] + body + p2 + ["=>"] + body:
                return
        raise ExtractError("rewrite R17 must split `P1 | P2 => { B }` into `P1 => { B } P2 => { B }`")
    if rule == "R16":
        # a constructor guard `assert!(COND, "msg");` whose condition Verus cannot interpret (iterator `all` with a
        # closure) is dropped from the verified text; the contract carries COND as a `requires` (documented panic)
        if tb == [] and ta[:3] == ["assert", "!", "("] and ta[-2:] == [")", ";"]:
            return
        raise ExtractError("rewrite R16 only deletes one `assert!(...);` statement")
    if rule == "R13":
        # non-short-circuit `&` between two pure boolean comparisons -> `&&` (Verus rejects `&` on bools)
        if len(ta) == len(tb) and sum(1 for x, y in zip(ta, tb) if x != y) == 1 and all(x == y or (x == "&" and y == "&&") for x, y in zip(ta, tb)) \
                and all(re.match(r"^[A-Za-z_][A-Za-z0-9_]*$", x) or x in ("(", ")", "!=", "==", "&") for x in ta):
            return
        raise ExtractError("rewrite R13 must change exactly one `&` between pure comparisons into `&&`: %s" % a)
    if rule == "R9":
        # inherent-impl form of an external-trait impl: `Self::Item` is replaced by the impl's `type Item`
        if ta != ["Self", "::", "Item"]:
            raise ExtractError("rewrite R9 only replaces `Self::Item`")
        return
    raise ExtractError("unknown rewrite rule %s" % rule)


# ----------------------------------------------------------------------------------------------
# generation
# ----------------------------------------------------------------------------------------------

class Gen:
    def __init__(self, repo):
        self.repo = repo
        self.files = {}
        self.out = []           # generated lines
        self.origin = []        # per generated line: ("src", rel, line) | ("ghost", clause_id|None) | ("glue",)
        self.fns = []           # dicts: qual, module, start, end, auto, tags, src
        self.clauses = {}       # id -> dict(tags, kind, fn, line_start, line_end, text)
        self.items_check = []   # (id, gen_start, gen_end, expected_tokens)
        self.assumptions = []   # external_body etc. injected by specs
        self.rule_uses = []

    def src(self, rel):
        if rel not in self.files:
            self.files[rel] = SrcFile(self.repo, rel)
        return self.files[rel]

    def emit(self, line, origin):
        self.out.append(line)
        self.origin.append(origin)

    def emit_ghost(self, text, cid=None, indent=""):
        start = len(self.out) + 1
        for l in text.split("\n"):
            self.emit(indent + l.rstrip() + G, ("ghost", cid))
        return start, len(self.out)

    def emit_src_lines(self, sf, text, line0):
        for k, l in enumerate(text.split("\n")):
            self.emit(l, ("src", sf.rel, line0 + k))

    def emit_src_text(self, sf, text, byte_start):
        """emit source text (possibly rewritten; line structure preserved) with origin mapping"""
        line0 = sf.line_of(byte_start)
        for k, l in enumerate(text.split("\n")):
            self.emit(l, ("src", sf.rel, line0 + k))

    # -- item copy -----------------------------------------------------------------------------
    def item_text(self, sf, it, keep_attrs=True):
        toks = sf.toks
        lo = it.attrs[0][0] if (keep_attrs and it.attrs) else it.vis_lo
        b0 = toks[lo].start
        b1 = toks[it.hi - 1].end
        return b0, b1

    def gen_item(self, modpath, sf, sec):
        kind, name = sec.arg
        it = sf.find(kind, name)
        b0, b1 = self.item_text(sf, it)
        text = sf.text[b0:b1]
        src_text = text
        r1 = True
        text = apply_R1(text)
        text = self.make_pub(text, kind)
        if kind == "const" and sec.opts.get("exec"):
            # R2: const N: T = e;  ->  exec const N: T ensures N == v { e }
            m = re.match(r"^(.*?\bconst\s+%s\s*:\s*[^=]+?)=\s*(.*);\s*$" % re.escape(name), text, re.S)
            if not m:
                raise ExtractError("R2: cannot parse const %s" % name)
            head = re.sub(r"\bconst\b", "exec const", m.group(1).rstrip(), count=1)
            start = len(self.out) + 1
            iid = "%s::%s" % (modpath, name)
            self.emit("//@item-begin %s" % iid, ("glue",))
            self.emit_src_text(sf, head, b0)
            self.emit("    ensures %s == %s" % (name, sec.opts["exec"]) + G, ("ghost", None))
            self.emit("{" + G, ("ghost", None))
            self.emit_src_text(sf, "    " + m.group(2), b0)
            self.emit("}" + G, ("ghost", None))
            self.emit("//@item-end %s" % iid, ("glue",))
            # expected: const N : T e   (the `=` and `;` are replaced by ghost braces) -> compare modulo these
            exp = [t for t in strip_vis(tok_texts(apply_R1(src_text))) if t not in ("=", ";")]
            exp = ["exec"] + exp if False else exp
            self.items_check.append((iid, start, len(self.out), exp, "R2"))
            self.rule_uses.append(("R2", iid))
            return
        iid = "%s::%s" % (modpath, name)
        start = len(self.out) + 1
        self.emit("//@item-begin %s" % iid, ("glue",))
        self.emit_src_text(sf, text, b0)
        self.emit("//@item-end %s" % iid, ("glue",))
        self.items_check.append((iid, start, len(self.out), expected_tokens(src_text, [], r1), None))

    @staticmethod
    def make_pub(text, kind):
        """R5: widen visibility.  pub(crate)/pub(super) -> pub ; private items and struct fields -> pub"""
        text = re.sub(r"\bpub\s*\(\s*(crate|super)\s*\)", "pub", text)
        toks = lex(text)
        pair = match_delims(toks)
        ins = []   # byte offsets where `pub ` is inserted
        # item keyword
        i = 0
        while toks[i].text == "#":
            i = pair[i + 1] + 1
        if toks[i].text != "pub" and kind in ("fn", "struct", "enum", "const", "type", "trait"):
            ins.append(toks[i].start)
        if kind == "struct":
            # fields of a brace struct
            for j, t in enumerate(toks):
                if t.text == "{" and j > i:
                    k = j + 1
                    end = pair[j]
                    expect_field = True
                    adepth = 0
                    while k < end:
                        tk = toks[k]
                        if expect_field:
                            while toks[k].text == "#":
                                k = pair[k + 1] + 1
                            tk = toks[k]
                            if k < end and tk.text != "pub":
                                ins.append(tk.start)
                            expect_field = False
                        if tk.text in ("(", "[", "{"):
                            k = pair[k] + 1
                            continue
                        if tk.text == "<":
                            adepth += 1
                        elif tk.text == ">":
                            adepth -= 1
                        elif tk.text == ">>":
                            adepth -= 2
                        if tk.text == "," and adepth == 0:
                            expect_field = True
                        k += 1
                    break
                if t.text == "(" and j > i and kind == "struct":
                    # tuple struct: fields separated by commas
                    k = j + 1
                    end = pair[j]
                    expect_field = True
                    while k < end:
                        tk = toks[k]
                        if expect_field and tk.text != "pub":
                            ins.append(tk.start)
                        expect_field = False
                        if tk.text in "([{":
                            k = pair[k] + 1
                            continue
                        if tk.text == ",":
                            expect_field = True
                        k += 1
                    break
                if t.text == ";":
                    break
        for b in sorted(set(ins), reverse=True):
            text = text[:b] + "pub " + text[b:]
        return text

    # -- functions -----------------------------------------------------------------------------
    def gen_fn(self, modpath, sf, it, fs, owner, in_trait_def=False, in_trait_impl=False, indent=""):
        """emit one function item `it` of file `sf` with the contracts of FnSpec `fs` (may be None)"""
        toks, pair = sf.toks, sf.pair
        qual = "%s::%s%s" % (modpath, (owner + "::") if owner else "", it.name)
        lo = it.attrs[0][0] if it.attrs else it.vis_lo
        b0 = toks[lo].start
        has_body = it.body is not None
        sig_end_tok = it.body[0] if has_body else it.hi - 1   # `{` or `;`
        sig_b1 = toks[sig_end_tok].start
        sig = sf.text[b0:sig_b1].rstrip()
        sig_src = sig
        rewrites = fs.rewrites if fs else []
        # R5 visibility
        sig = re.sub(r"\bpub\s*\(\s*(crate|super)\s*\)", "pub", sig)
        if not in_trait_def and not in_trait_impl and not re.search(r"(^|\s)pub\s", sig.split("fn")[0]):
            # private fn -> pub
            kwb = toks[it.vis_lo].start - b0
            sig = sig[:kwb] + "pub " + sig[kwb:]
        for (rule, a, b) in rewrites:
            if a in sig:
                sig = sig.replace(a, b)
        mutself = bool(fs and (fs.mutself or fs.mutparam))
        mp = ("self" if fs.mutself else fs.mutparam) if mutself else None
        if mutself:
            if not re.search(r"[(,]\s*mut\s+%s\b" % mp, sig):
                raise ExtractError("lost anchor: %s has no `mut %s` parameter (R10)" % (qual, mp))
            sig = re.sub(r"([(,]\s*)mut\s+%s\b" % mp, r"\g<1>%s" % mp, sig, count=1)
            self.rule_uses.append(("R10", qual))
        # R8 named return
        ret = fs.ret if fs else "r"
        has_ens = fs is not None and any(c["kind"] in ("ensures", "returns_clause") for c in fs.clauses)
        if has_ens:
            sig = self.name_return(sig, ret)
        start = len(self.out) + 1
        self.emit("//@item-begin %s" % qual, ("glue",))
        if fs:
            for a in fs.attrs:
                self.emit(indent + a + G, ("ghost", None))
                if "external_body" in a or "external" in a:
                    self.assumptions.append("external_body: %s (body not verified; contract assumed)" % qual)
        self.emit_src_text(sf, sig, b0)
        fn_tags = set()
        clause_ids = []
        if fs:
            groups = {}
            for c in fs.clauses:
                if c["loop"] is None:
                    groups.setdefault(c["kind"], []).append(c)
            for kind in ("requires", "recommends", "ensures", "returns_clause", "decreases", "opens_invariants", "no_unwind"):
                if kind not in groups:
                    continue
                kw = {"returns_clause": "returns"}.get(kind, kind)
                if kind in ("no_unwind",):
                    self.emit(indent + "    no_unwind" + G, ("ghost", None))
                    continue
                if kind == "opens_invariants":
                    self.emit(indent + "    opens_invariants " + groups[kind][0]["text"] + G, ("ghost", None))
                    continue
                self.emit(indent + "    " + kw + G, ("ghost", None))
                for n, c in enumerate(groups[kind]):
                    cid = "%s/%s/%s" % (qual, {"requires": "pre", "ensures": "post", "decreases": "decreases", "recommends": "rec", "returns_clause": "post"}[kind], c["label"] or str(n + 1))
                    if cid in self.clauses:
                        raise ExtractError("duplicate clause id %s" % cid)
                    s, e = self.emit_ghost(c["text"] + ",", cid, indent + "        ")
                    self.clauses[cid] = {"tags": c["tags"], "kind": kind, "fn": qual, "start": s, "end": e, "text": c["text"], "spec_line": c["line"]}
                    fn_tags.update(c["tags"])
                    clause_ids.append(cid)
        if not has_body:
            self.emit(indent + ";", ("src", sf.rel, sf.line_of(toks[sig_end_tok].start)))
            self.emit("//@item-end %s" % qual, ("glue",))
            exp = expected_tokens(sf.text[b0:toks[it.hi - 1].end], rewrites, True)
            self.items_check.append((qual, start, len(self.out), exp, "R8" if has_ens else None))
            self.fns.append({"qual": qual, "module": modpath, "start": start, "end": len(self.out), "auto": fs.auto if fs else [],
                             "tags": sorted(fn_tags), "src": "%s:%d" % (sf.rel, sf.line_of(b0)), "has_body": False, "clauses": clause_ids})
            return
        if fs and fs.nobody:
            self.emit(indent + "{ unimplemented!() }  /* body dropped (D7): not expressible in Verus */" + G, ("ghost", None))
            self.emit("//@item-end %s" % qual, ("glue",))
            exp = expected_tokens(sf.text[b0:sig_b1], rewrites, True)
            self.items_check.append((qual, start, len(self.out), exp, "R8" if has_ens else None))
            self.assumptions.append("body dropped (D7): %s" % qual)
            self.fns.append({"qual": qual, "module": modpath, "start": start, "end": len(self.out), "auto": [], "tags": sorted(fn_tags),
                             "src": "%s:%d" % (sf.rel, sf.line_of(b0)), "has_body": True, "clauses": clause_ids, "external_body": True})
            return
        # body with injections -------------------------------------------------------------
        g_body_lo, g_body_hi = it.body
        bb0, bb1 = toks[g_body_lo].start, toks[g_body_hi].end
        body = sf.text[bb0:bb1]
        body_line0 = sf.line_of(bb0)
        used_rewrites = set()
        for n, (rule, a, b) in enumerate(rewrites):
            if a in body:
                body = body.replace(a, b)
                used_rewrites.add(n)
        r12 = bool(fs and fs.r12)
        if r12:
            body = inline_result_combinators(body, qual, option=(fs.r12 == "opt"))
            self.rule_uses.append(("R12", qual))
        desug = [c for c in (fs.clauses if fs else []) if c["kind"] == "desugar"]
        if desug:
            body = desugar_for_loops(body, desug, qual)
            self.rule_uses.append(("R7", qual))
        if mutself:
            bt = lex(body)
            outb, prev = [], 0
            for t in bt:
                if t.kind == "ident" and t.text == mp:
                    outb.append(body[prev:t.start] + mp + "_")
                    prev = t.end
            outb.append(body[prev:])
            body = "".join(outb)
            assert body.startswith("{")
            body = "{ let mut %s_ = %s;" % (mp, mp) + body[1:]
        # from here on: tokens of the (possibly desugared) body text, positions relative to it
        toks = lex(body)
        pair = match_delims(toks)
        bb0 = 0
        body_lo, body_hi = 0, len(toks) - 1
        inserts = []   # (byte offset relative to body, order, ghost text, cid)
        loops = self.find_loops_toks(toks, pair, body_lo, body_hi)
        if fs:
            loop_groups = {}
            for c in fs.clauses:
                if c["loop"] is not None:
                    loop_groups.setdefault(c["loop"], []).append(c)
            for k, cl in loop_groups.items():
                if k < 1 or k > len(loops):
                    raise ExtractError("lost anchor: %s has %d loops, clause refers to loop %d" % (qual, len(loops), k))
                (lkw, lbrace) = loops[k - 1]
                pos = toks[lbrace].start - bb0
                lines = []
                bykind = {}
                for c in cl:
                    bykind.setdefault(c["kind"], []).append(c)
                bykind.pop("desugar", None)
                if "itername" in bykind:
                    # `for PAT in EXPR`  ->  `for PAT in it: EXPR`   (ghost name of the loop's iterator)
                    j = lkw + 1
                    while not (toks[j].text == "in" and toks[j].kind == "ident"):
                        j = pair[j] + 1 if toks[j].text in ("(", "[", "{") else j + 1
                    ipos = toks[j + 1].start - bb0
                    inserts.append((ipos, 0, [(bykind["itername"][0]["text"].strip() + ":", None)], "split"))
                for kind in ("invariant_except_break", "invariant", "loop_ensures", "decreases"):
                    if kind not in bykind:
                        continue
                    kw = {"loop_ensures": "ensures"}.get(kind, kind)
                    lines.append((kw, None))
                    for n, c in enumerate(bykind[kind]):
                        cid = "%s/loop%d/%s/%s" % (qual, k, {"invariant": "inv", "invariant_except_break": "inv", "loop_ensures": "ens", "decreases": "decreases"}[kind], c["label"] or str(n + 1))
                        if cid in self.clauses:
                            raise ExtractError("duplicate clause id %s" % cid)
                        self.clauses[cid] = {"tags": c["tags"], "kind": "loop-" + kind, "fn": qual, "text": c["text"], "spec_line": c["line"]}
                        fn_tags.update(c["tags"])
                        clause_ids.append(cid)
                        lines.append(("    " + c["text"] + ",", cid))
                inserts.append((pos, 0, lines, "split"))
            for h in fs.hints:
                txt = h["text"]
                if h["where"] == "first":
                    pos = toks[body_lo].end - bb0
                elif h["where"] == "last":
                    pos = toks[body_hi].start - bb0
                elif h["where"] in ("loop", "loopend"):
                    k = int(h["arg"])
                    if k < 1 or k > len(loops):
                        raise ExtractError("lost anchor: %s has %d loops, hint refers to loop %d" % (qual, len(loops), k))
                    lbrace = loops[k - 1][1]
                    pos = (toks[lbrace].end if h["where"] == "loop" else toks[pair[lbrace]].start) - bb0
                else:
                    pat = h["arg"].replace('\\"', '"').replace("\\n", "\n")
                    cnt = body.count(pat)
                    if cnt != 1:
                        raise ExtractError("lost anchor: hint anchor %r occurs %d times in %s" % (pat, cnt, qual))
                    p = body.index(pat)
                    pos = p + len(pat) if h["where"] == "after" else p
                if h.get("raw"):
                    inserts.append((pos, 1, [(txt, None)], "line"))
                else:
                    inserts.append((pos, 1, [("proof { " + txt + " }", "%s/hint/L%d" % (qual, h["line"]))], "line"))
        # apply rewrites to the body text *before* computing positions? positions are on original
        # text; rewrites are applied per segment afterwards (they never span an insertion point).
        inserts.sort(key=lambda x: (x[0], x[1]))
        segs = []
        prev = 0
        for (pos, _o, lines, mode) in inserts:
            segs.append(("src", body[prev:pos], prev))
            segs.append(("ghost", lines, mode))
            prev = pos
        segs.append(("src", body[prev:], prev))
        # emit
        body_first_line = len(self.out) + 1
        pending = ""     # partial source line not yet emitted
        pend_byte = None
        for seg in segs:
            if seg[0] == "src":
                t = seg[1]
                t = apply_R1(t)
                if pend_byte is None:
                    pend_byte = seg[2]
                pending += t
            else:
                # flush pending up to here as complete lines
                if pending.strip() != "" or "\n" in pending:
                    txt = pending.rstrip(" \t")
                    if txt.endswith("\n"):
                        txt = txt[:-1]
                    self.emit_src_lines(sf, txt, body_line0 + body[:pend_byte].count("\n"))
                pending, pend_byte = "", None
                for (l, cid) in seg[1]:
                    s, e = self.emit_ghost(l, cid, indent + "        ")
                    if cid and cid in self.clauses:
                        self.clauses[cid].setdefault("start", s)
                        self.clauses[cid]["end"] = e
                    elif cid:
                        self.clauses[cid] = {"tags": [], "kind": "hint", "fn": qual, "start": s, "end": e, "text": l}
                        clause_ids.append(cid)
        if pending != "":
            txt = pending
            if txt.startswith("\n"):
                txt = txt[1:]
                pend_byte += 1
            self.emit_src_lines(sf, txt, body_line0 + body[:pend_byte].count("\n"))
        for n, rw in enumerate(rewrites):
            if n not in used_rewrites and rw[1] not in sig_src:
                raise ExtractError("lost anchor: rewrite source text not found in %s: %s" % (qual, rw[1]))
            self.rule_uses.append((rw[0], qual))
        self.emit("//@item-end %s" % qual, ("glue",))
        src_fn_text = sf.text[b0:sf.toks[g_body_hi].end]
        if r12:
            # R12 has no independent inverse: the expected tokens use the same routine (see DESIGN 2.2)
            src_fn_text = sf.text[b0:sf.toks[g_body_lo].start] + inline_result_combinators(sf.text[sf.toks[g_body_lo].start:sf.toks[g_body_hi].end], qual, option=(fs.r12 == "opt"))
        exp = expected_tokens(src_fn_text, rewrites, True)
        rule = ("R7:" + ",".join(c["text"].strip().split()[0] for c in desug)) if desug else ("R8" if has_ens else None)
        if mutself:
            rule = "R10:%s|" % mp + (rule or "")
        self.items_check.append((qual, start, len(self.out), exp, rule))
        # hints inherit the function's tags
        for cid in clause_ids:
            if self.clauses[cid]["kind"] == "hint":
                self.clauses[cid]["tags"] = sorted(fn_tags)
        self.fns.append({"qual": qual, "module": modpath, "start": start, "end": len(self.out), "auto": fs.auto if fs else [],
                         "tags": sorted(fn_tags), "src": "%s:%d" % (sf.rel, sf.line_of(b0)), "has_body": True, "clauses": clause_ids,
                         "body_line": body_first_line,
                         "external_body": bool(fs and any("external_body" in a for a in fs.attrs))})

    @staticmethod
    def name_return(sig, ret):
        toks = lex(sig)
        pair = match_delims(toks)
        # find `->` at depth 0 after the parameter list
        i = 0
        while toks[i].text != "fn":
            i += 1
        j = i
        while toks[j].text != "(":
            j = pair[j] + 1 if toks[j].text in ("[",) else j + 1
            if toks[j - 1].text == "<":
                # skip generics
                depth = 1
                while depth:
                    if toks[j].text == "<":
                        depth += 1
                    elif toks[j].text == ">":
                        depth -= 1
                    elif toks[j].text == ">>":
                        depth -= 2
                    elif toks[j].text == "->":
                        pass
                    j += 1
        k = pair[j] + 1
        if k >= len(toks) or toks[k].text != "->":
            return sig
        # return type extends to `where` at depth 0 or end
        e = k + 1
        depth = 0
        while e < len(toks):
            tx = toks[e].text
            if tx in ("(", "[", "{"):
                e = pair[e] + 1
                continue
            if tx == "<":
                depth += 1
            elif tx == ">":
                depth -= 1
            elif tx == ">>":
                depth -= 2
            elif tx == "where" and depth == 0:
                break
            e += 1
        t0 = toks[k + 1].start
        t1 = toks[e - 1].end
        return sig[:t0] + "(" + ret + ": " + sig[t0:t1] + ")" + sig[t1:]

    @staticmethod
    def find_loops(sf, body_lo, body_hi):
        return Gen.find_loops_toks(sf.toks, sf.pair, body_lo, body_hi)

    @staticmethod
    def find_loops_toks(toks, pair, body_lo, body_hi):
        """loops in textual order: (keyword token idx, body `{` idx)"""
        out = []
        i = body_lo + 1
        while i < body_hi:
            t = toks[i]
            if t.kind == "ident" and t.text in ("for", "while", "loop") and toks[i - 1].text not in (".", "::"):
                if t.text == "for" and toks[i + 1].text == "<":
                    i += 1
                    continue  # for<'a> bound
                j = i + 1
                while True:
                    tx = toks[j].text
                    if tx == "{":
                        break
                    j = pair[j] + 1 if tx in ("(", "[") else j + 1
                out.append((i, j))
            i += 1
        return out

    # -- containers ----------------------------------------------------------------------------
    def gen_impl(self, modpath, sf, sec):
        it = sf.find_impl(sec.arg, [c.arg for c in sec.children if c.kind == "fn"])
        toks = sf.toks
        subs = sf.sub_items(it)
        m = re.match(r"^impl\s*(<.*?>)?\s*(.*?)$", sec.arg)
        hdr_rest = m.group(2)
        is_trait_impl = " for " in hdr_rest
        owner = self.owner_name(sec.arg)
        lo = it.attrs[0][0] if it.attrs else it.vis_lo
        b0 = toks[lo].start
        hdr_text = sf.text[b0:toks[it.body[0]].end]
        if sec.opts.get("as"):
            # R9: a trait impl of an external trait is emitted as an inherent impl (methods verbatim)
            self.emit(sec.opts["as"] + " {", ("src", sf.rel, sf.line_of(b0)))
            self.rule_uses.append(("R9", "%s::%s" % (modpath, owner)))
            is_trait_impl = False
            owner = self.owner_name(" ".join(tok_texts(sec.opts["as"])))
        else:
            self.emit_src_text(sf, hdr_text, b0)
        wanted = [c for c in sec.children]
        names = [c.arg for c in wanted if c.kind == "fn"]
        for c in wanted:
            if c.kind == "ghost":
                self.emit_ghost(c.text, None)
            elif c.kind == "fn":
                cand = [s for s in subs if s.kind == "fn" and s.name == c.arg]
                if len(cand) != 1:
                    raise ExtractError("lost anchor: fn %s in impl `%s` (%s)" % (c.arg, sec.arg, sf.rel))
                if sec.opts.get("as"):
                    ty = [x for x in subs if x.kind == "type" and x.name == "Item"]
                    fn_src = sf.text[toks[cand[0].vis_lo].start:toks[cand[0].hi - 1].end]
                    if ty and "Self::Item" in fn_src:
                        tt = sf.text[toks[ty[0].kw].start:toks[ty[0].hi - 1].end]
                        item_ty = tt.split("=", 1)[1].rstrip(";").strip()
                        if c.fn is None:
                            c.fn = FnSpec(c.arg)
                        if not any(r[0] == "R9" for r in c.fn.rewrites):
                            c.fn.rewrites.append(("R9", "Self::Item", item_ty))
                self.gen_fn(modpath, sf, cand[0], c.fn, owner, in_trait_impl=is_trait_impl, indent="    ")
            elif c.kind == "item":
                kind, name = c.arg
                cand = [s for s in subs if s.kind == kind and s.name == name]
                if len(cand) != 1:
                    raise ExtractError("lost anchor: %s %s in impl `%s`" % (kind, name, sec.arg))
                s = cand[0]
                bb0 = toks[s.vis_lo].start
                text = sf.text[bb0:toks[s.hi - 1].end]
                iid = "%s::%s::%s" % (modpath, owner, name)
                if kind == "const" and c.opts.get("exec"):
                    mm = re.match(r"^(.*?\bconst\s+%s\s*:\s*[^=]+?)=\s*(.*);\s*$" % re.escape(name), text, re.S)
                    head = re.sub(r"\bpub\s*\(\s*crate\s*\)", "pub", mm.group(1).rstrip())
                    head = re.sub(r"\bconst\b", "exec const", head, count=1)
                    start = len(self.out) + 1
                    self.emit("//@item-begin %s" % iid, ("glue",))
                    self.emit_src_text(sf, "    " + head, bb0)
                    self.emit("        ensures Self::%s == %s" % (name, c.opts["exec"]) + G, ("ghost", None))
                    self.emit("    {" + G, ("ghost", None))
                    self.emit_src_text(sf, "        " + mm.group(2), bb0)
                    self.emit("    }" + G, ("ghost", None))
                    self.emit("//@item-end %s" % iid, ("glue",))
                    exp = [t for t in strip_vis(tok_texts(text)) if t not in ("=", ";")]
                    self.items_check.append((iid, start, len(self.out), exp, "R2"))
                else:
                    start = len(self.out) + 1
                    self.emit("//@item-begin %s" % iid, ("glue",))
                    self.emit_src_text(sf, "    " + re.sub(r"\bpub\s*\(\s*crate\s*\)", "pub", text), bb0)
                    self.emit("//@item-end %s" % iid, ("glue",))
                    self.items_check.append((iid, start, len(self.out), expected_tokens(text, [], True), None))
        dropped = [s.name for s in subs if s.kind == "fn" and s.name not in names]
        if dropped:
            self.emit("    // not extracted from this impl: %s" % ", ".join(dropped) + G, ("ghost", None))
        self.emit("}", ("src", sf.rel, sf.line_of(toks[it.body[1]].start)))

    @staticmethod
    def owner_name(header):
        h = re.sub(r"^impl\s*(<[^{]*?>\s)?", "", header) if False else header
        # strip leading `impl` and generic params
        toks = lex(header)
        i = 1
        if toks[i].text == "<":
            depth = 1
            i += 1
            while depth:
                if toks[i].text == "<":
                    depth += 1
                elif toks[i].text == ">":
                    depth -= 1
                elif toks[i].text == ">>":
                    depth -= 2
                i += 1
        rest = toks[i:]
        # stop at `where`
        txt = []
        for t in rest:
            if t.text == "where":
                break
            txt.append(t.text)
        s = "".join(x if x != "for" else " for " for x in txt)
        if " for " in s:
            tr, ty = s.split(" for ", 1)
            return "<%s as %s>" % (ty, tr)
        return s

    def gen_trait(self, modpath, sf, sec):
        it = sf.find("trait", sec.arg)
        toks = sf.toks
        subs = sf.sub_items(it)
        lo = it.attrs[0][0] if it.attrs else it.vis_lo
        b0 = toks[lo].start
        hdr_text = sf.text[b0:toks[it.body[0]].end]
        hdr_text = re.sub(r"\bpub\s*\(\s*crate\s*\)", "pub", hdr_text)
        if not re.match(r"^\s*(#\[[^\]]*\]\s*)*pub\b", hdr_text):
            hdr_text = re.sub(r"\btrait\b", "pub trait", hdr_text, count=1)
        self.emit_src_text(sf, hdr_text, b0)
        specs = {c.arg: c.fn for c in sec.children if c.kind == "fn"}
        for c in sec.children:
            if c.kind == "ghost":
                self.emit_ghost(c.text, None)
        for s in subs:
            if s.kind == "fn":
                self.gen_fn(modpath, sf, s, specs.get(s.name), sec.arg, in_trait_def=True, indent="    ")
            else:
                bb0 = toks[s.vis_lo].start
                self.emit_src_text(sf, "    " + sf.text[bb0:toks[s.hi - 1].end], bb0)
        for n in specs:
            if n not in [s.name for s in subs if s.kind == "fn"]:
                raise ExtractError("lost anchor: fn %s in trait %s" % (n, sec.arg))
        self.emit("}", ("src", sf.rel, sf.line_of(toks[it.body[1]].start)))

    # -- macro expansion (R4) --------------------------------------------------------------------
    def gen_expand(self, modpath, sf, sec):
        """@expand name!(args) : expand a single-arm macro_rules! of the repository by substitution"""
        m = re.match(r"^([A-Za-z_][A-Za-z0-9_]*)\s*!\s*\((.*)\)\s*$", sec.arg)
        if not m:
            raise ExtractError("bad @expand %s" % sec.arg)
        name, args = m.group(1), m.group(2)
        # the invocation must exist in the file
        want = "".join(tok_texts("%s!(%s)" % (name, args)))
        found = False
        for it in sf.items:
            if it.kind == "macro_call" and it.name == name:
                inv = "".join(t.text for t in sf.toks[it.kw:it.body[1] + 1])
                if inv == want:
                    found = True
        if not found:
            raise ExtractError("lost anchor: macro invocation %s!(%s) not found in %s" % (name, args, sf.rel))
        text = self.expand_macro(sf, name, args)
        iid = "%s::%s!(%s)" % (modpath, name, args)
        self.emit("//@item-begin %s" % iid, ("glue",))
        start = len(self.out) + 1
        ghosts = {}
        for c in sec.children:
            if c.kind == "ghost":
                hdr = " ".join(tok_texts(c.arg[2:].strip() if c.arg.startswith("in") else c.arg))
                ghosts[hdr] = c.text
        used = set()
        for l in text.split("\n"):
            self.emit(l, ("src", sf.rel, 0))
            ls = l.strip()
            if ls.startswith("impl") and ls.endswith("{"):
                hdr = " ".join(tok_texts(ls[:-1]))
                if hdr in ghosts:
                    self.emit_ghost(ghosts[hdr], None)
                    used.add(hdr)
        for h in ghosts:
            if h not in used:
                raise ExtractError("lost anchor: expansion of %s has no `%s`" % (name, h))
        self.emit("//@item-end %s" % iid, ("glue",))
        self.rule_uses.append(("R4", iid))
        # register functions inside the expansion for obligation mapping
        et = lex(text)
        ep = match_delims(et)
        for item in split_items(et, ep, 0, len(et)):
            if item.kind == "impl":
                owner = self.owner_name(item.header_norm)
                for s in split_items(et, ep, item.body[0] + 1, item.body[1]):
                    if s.kind == "fn":
                        l0 = text[:et[s.vis_lo].start].count("\n")
                        l1 = text[:et[s.hi - 1].end].count("\n")
                        self.fns.append({"qual": "%s::%s::%s" % (modpath, owner, s.name), "module": modpath, "start": start + l0, "end": start + l1,
                                         "auto": sec.opts.get("auto", []), "tags": sec.opts.get("tags", []), "src": sf.rel + ":macro " + name, "has_body": True, "clauses": []})

    def expand_macro(self, sf, name, args, depth=0):
        if depth > 4:
            raise ExtractError("macro recursion too deep")
        mac = None
        # macros may be defined in another file of the crate (same module tree); search all loaded + this
        for f in list(self.files.values()):
            for it in f.items:
                if it.kind == "macro_rules" and it.name == name:
                    mac = (f, it)
        if mac is None:
            raise ExtractError("lost anchor: macro_rules! %s" % name)
        f, it = mac
        toks, pair = f.toks, f.pair
        lo, hi = it.body
        # single arm:  ( pattern ) => { body } ;
        p0 = lo + 1
        assert toks[p0].text == "("
        p1 = pair[p0]
        assert toks[p1 + 1].text == "=>"
        b0 = p1 + 2
        b1 = pair[b0]
        rest = b1 + 1
        if toks[rest].text == ";":
            rest += 1
        if rest != hi:
            raise ExtractError("macro %s has more than one arm: not supported by R4" % name)
        pat = toks[p0 + 1:p1]
        # match pattern against args
        at = lex(args)
        binds = {}
        i = j = 0
        while i < len(pat):
            if pat[i].text == "$":
                var = pat[i + 1].text
                frag = pat[i + 3].text
                i += 4
                # capture until next literal token of the pattern (or end)
                nxt = pat[i].text if i < len(pat) else None
                k = j
                if frag == "ident":
                    k = j + 1
                else:
                    while k < len(at) and at[k].text != nxt:
                        k += 1
                binds[var] = args[at[j].start:at[k - 1].end]
                j = k
            else:
                if j >= len(at) or at[j].text != pat[i].text:
                    raise ExtractError("macro %s: invocation does not match pattern" % name)
                i += 1
                j += 1
        body = f.text[toks[b0].end:toks[b1].start]
        body = re.sub(r"\$([A-Za-z_][A-Za-z0-9_]*)", lambda m: binds[m.group(1)], body)
        # nested invocations of repository macros
        bt = lex(body)
        bp = match_delims(bt)
        out = body
        for item in reversed(split_items(bt, bp, 0, len(bt))):
            if item.kind == "macro_call":
                inner_args = body[bt[item.body[0]].end:bt[item.body[1]].start]
                exp = self.expand_macro(sf, item.name, inner_args, depth + 1)
                out = out[:bt[item.kw].start] + exp + out[bt[item.hi - 1].end:]
        # dedent
        lines = [l for l in out.split("\n")]
        return "\n".join(lines).strip("\n")

    def register_lemmas(self, modpath, s0, e0):
        """hand-written `proof fn`s of a ghost block become named obligations `<module>::lemma NAME`;
        a doc comment `/// [C01,C02] ...` directly above gives the properties they serve"""
        lines = self.out[s0 - 1:e0]
        i = 0
        while i < len(lines):
            m = re.match(r"^\s*(pub\s+)?(broadcast\s+)?(?:proof fn |fn (?=client_))([A-Za-z0-9_]+)", lines[i])
            if m:
                tags = []
                j = i - 1
                while j >= 0 and lines[j].strip().startswith("///"):
                    t = re.search(r"\[(C\d\d(?:\s*,\s*C\d\d)*)\]", lines[j])
                    if t:
                        tags = [x.strip() for x in t.group(1).split(",")]
                    j -= 1
                # end of the lemma: first line at or after i whose text is `}` at the fn's indentation
                ind = len(lines[i]) - len(lines[i].lstrip())
                k = i
                while k < len(lines) and not (lines[k].replace("//@g", "").rstrip() == " " * ind + "}"):
                    k += 1
                self.fns.append({"qual": "%s::lemma %s" % (modpath, m.group(3)), "module": modpath, "start": s0 + i, "end": s0 + min(k, len(lines) - 1),
                                 "auto": list(tags), "tags": list(tags), "src": "contracts (hand-written lemma)", "has_body": True, "clauses": [], "lemma": True})
                i = k
            i += 1

    # -- module tree ------------------------------------------------------------------------------
    def gen_module_body(self, mod):
        sf = self.src(mod.opts["file"]) if mod.opts.get("file") else None
        modpath = mod.arg
        for c in mod.children:
            if c.kind == "ghost":
                s0, e0 = self.emit_ghost(c.text, None)
                self.register_lemmas(modpath, s0, e0)
            elif c.kind == "item":
                self.gen_item(modpath, sf, c)
            elif c.kind == "fn":
                it = sf.find("fn", c.arg)
                self.gen_fn(modpath, sf, it, c.fn, None)
            elif c.kind == "impl":
                self.gen_impl(modpath, sf, c)
            elif c.kind == "trait":
                self.gen_trait(modpath, sf, c)
            elif c.kind == "expand":
                self.gen_expand(modpath, sf, c)
            self.emit("", ("glue",))


def build(repo, spec_paths, prelude_paths, out_path, cover=False):
    g = Gen(repo)
    mods = []
    for p in spec_paths:
        mods.extend(parse_spec(p))
    # preload all files (macros may live elsewhere)
    for m in mods:
        if m.opts.get("file"):
            g.src(m.opts["file"])
    g.emit("// GENERATED by /verif/tools/extract.py from %s -- do not edit" % repo, ("glue",))
    g.emit("#![allow(unused_imports, unused_variables, dead_code, unused_mut, unused_parens, non_snake_case, unused_braces)]", ("glue",))
    g.emit("use vstd::prelude::*;", ("glue",))
    g.emit("verus! {", ("glue",))
    g.emit("global size_of usize == 8;   // A5: 64-bit target", ("glue",))
    for p in prelude_paths:
        g.emit("// ---- prelude %s (hand-written, trusted vocabulary) ----" % os.path.basename(p), ("glue",))
        for l in open(p).read().split("\n"):
            g.emit(l, ("prelude", os.path.basename(p)))
    # module tree: `crate` first, then nested
    tree = {}
    order = []
    for m in mods:
        if m.arg not in tree:
            tree[m.arg] = []
            order.append(m.arg)
        tree[m.arg].append(m)

    def emit_mod(path):
        for m in tree.get(path, []):
            g.gen_module_body(m)
        prefix = "" if path == "crate" else path + "::"
        kids = [p for p in order if p != "crate" and p != path and p.startswith(prefix) and "::" not in p[len(prefix):]]
        if path == "crate":
            kids = [p for p in order if p != "crate" and "::" not in p]
        for k in kids:
            g.emit("pub mod %s {" % k.split("::")[-1], ("glue",))
            emit_mod(k)
            g.emit("} // mod %s" % k, ("glue",))

    # make sure parents exist
    for p in list(order):
        parts = p.split("::")
        for n in range(1, len(parts)):
            par = "::".join(parts[:n])
            if par not in tree and par != "crate":
                tree[par] = []
                order.append(par)
    emit_mod("crate")
    g.emit("} // verus!", ("glue",))
    g.emit("fn main() {}", ("glue",))
    identity_check(g)
    text = "\n".join(g.out) + "\n"
    if cover:
        text = make_cover(g, text)
    os.makedirs(os.path.dirname(out_path), exist_ok=True)
    open(out_path, "w").write(text)
    side = {"fns": g.fns, "clauses": g.clauses, "origin": g.origin, "assumptions": g.assumptions,
            "rule_uses": g.rule_uses, "items": [x[0] for x in g.items_check]}
    json.dump(side, open(out_path + ".map.json", "w"))
    return g


def identity_check(g):
    for (iid, s, e, exp, rule) in g.items_check:
        lines = g.out[s - 1:e]
        kept = [l for l in lines if not l.rstrip().endswith("//@g") and not l.startswith("//@item-")]
        tt = strip_vis(tok_texts("\n".join(kept)))
        if rule and rule.startswith("R10:"):
            mp, _, rule = rule[4:].partition("|")
            rule = rule or None
            pro = ["let", "mut", mp + "_", "=", mp, ";"]
            for i in range(len(tt) - len(pro)):
                if tt[i:i + len(pro)] == pro:
                    tt = tt[:i] + tt[i + len(pro):]
                    break
            else:
                raise ExtractError("R10 inverse: prologue not found in %s" % iid)
            tt = [mp if t == mp + "_" else t for t in tt]
            for i in range(len(tt) - 1):
                if tt[i] in ("(", ",") and tt[i + 1] == mp and (mp == "self" or tt[i + 2] == ":"):
                    tt = tt[:i + 1] + ["mut"] + tt[i + 1:]
                    break
        if rule == "R2":
            tt = [t for t in tt if t != "exec"]
        if rule and rule.startswith("R7:"):
            tt = invert_desugar(tt, rule[3:].split(","))
        tt = invert_named_return(tt)
        exp2 = invert_named_return(exp)
        if tt != exp2:
            # locate first difference
            k = 0
            while k < min(len(tt), len(exp2)) and tt[k] == exp2[k]:
                k += 1
            raise ExtractError("extraction is not the identity for %s: generated ...%s... vs source ...%s..." % (
                iid, " ".join(tt[max(0, k - 5):k + 5]), " ".join(exp2[max(0, k - 5):k + 5])))


def make_cover(g, text):
    """vacuity companion: `assert(false)` as first statement of every exec fn body that is verified"""
    lines = text.split("\n")
    ins = []
    for f in g.fns:
        if not f.get("has_body") or f.get("external_body") or ":macro" in f.get("src", ""):
            continue
        # the generated line that holds the body's opening brace
        bl = f.get("body_line")
        if bl and lines[bl - 1].lstrip().startswith("{"):
            ins.append((bl, f["qual"]))
    for ln, q in sorted(ins, reverse=True):
        lines.insert(ln, "        assert(false); //@cover %s" % q)
    return "\n".join(lines)


if __name__ == "__main__":
    import argparse
    ap = argparse.ArgumentParser()
    ap.add_argument("--repo", default="/repo")
    ap.add_argument("--out", required=True)
    ap.add_argument("--cover", action="store_true")
    ap.add_argument("--prelude", nargs="*", default=[])
    ap.add_argument("specs", nargs="+")
    a = ap.parse_args()
    try:
        build(a.repo, a.specs, a.prelude, a.out, a.cover)
    except ExtractError as e:
        print("EXTRACT-ERROR:", e)
        sys.exit(2)
