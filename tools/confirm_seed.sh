#!/bin/sh
# usage: tools/confirm_seed.sh <Cxx> <src-worktree-of-sub-agent> <name>     e.g. C09 /tmp/sw6-C09 C09-Z
# confirms a sub-agent's change in a fresh scratch worktree (demo passes on the unchanged tree, existing suite passes
# with the change, demo fails with the change), stores it as seeded/<name>/ and runs the property's check (with Kani) on it.
P=$1; S=$2; N=$3; FEAT=""
[ "$P" = C20 ] && FEAT="--features geo-types,geo-traits"
W=/tmp/cfw.$N
git -C /repo worktree remove --force $W 2>/dev/null; rm -rf $W
git -C /repo worktree add -q --detach $W HEAD || exit 3
cp $S/tests/zz_demo.rs $W/tests/zz_demo.rs
(cd $W && CARGO_TARGET_DIR=$W/target cargo test --offline $FEAT --test zz_demo >/tmp/cf_$N.clean.log 2>&1); clean=$?
(cd $W && git apply $S/patch.diff) || { echo "$N PATCH DOES NOT APPLY"; git -C /repo worktree remove --force $W; exit 3; }
(cd $W && CARGO_TARGET_DIR=$W/target cargo test --offline $FEAT --test zz_demo >/tmp/cf_$N.mut.log 2>&1); mut=$?
rm $W/tests/zz_demo.rs
(cd $W && CARGO_TARGET_DIR=$W/target cargo test --offline --no-fail-fast >/tmp/cf_$N.suite.log 2>&1); suite=$?
git -C /repo worktree remove --force $W; rm -rf $W
echo "$N demo_clean_rc=$clean demo_mut_rc=$mut suite_mut_rc=$suite"
if [ $clean = 0 ] && [ $mut != 0 ] && [ $suite = 0 ]; then
  D=/verif/seeded/$N; mkdir -p $D
  cp $S/patch.diff $D/patch.diff; cp $S/tests/zz_demo.rs $D/demo.rs; cp $S/notes.md $D/notes.md
  python3 - "$P" "$D" <<'PY'
import json, sys
p, d = sys.argv[1], sys.argv[2]
notes = open(d + "/notes.md").read()
json.dump({"property": p, "change": notes.strip().split("\n\n")[0][:600], "needs_to_manifest": "see notes.md",
  "produced_by": "independent sub-agent (sixth batch: property text + scratch worktree only)",
  "confirmed": {"how": "tools/confirm_seed.sh in a fresh scratch worktree of /repo HEAD: cargo test --offline --test zz_demo on the unchanged tree, then with patch.diff applied; then the unedited suite (cargo test --offline --no-fail-fast) with the change",
   "demo_on_unchanged_tree": "pass", "demo_with_change": "fail", "existing_suite_with_change": "pass"}}, open(d + "/meta.json", "w"), indent=1)
PY
  WITH_KANI=1 sh /verif/tools/try_mutant.sh $D/patch.diff $P > /tmp/cf_$N.check.log 2>&1
  cat /tmp/cf_$N.check.log
else
  echo "$N NOT CONFIRMED"
fi
