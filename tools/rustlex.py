"""Minimal Rust lexer + item locator used by the mechanical extractor.

It does not parse Rust; it tokenises (skipping whitespace and comments), matches
delimiters, and splits a token range into items (attributes, visibility, keyword,
name, header, body).  That is all the extractor needs to copy items by source span.
"""
import re

TOKEN_RE = re.compile(r"""
    (?P<ws>\s+)
  | (?P<lcomment>//[^\n]*)
  | (?P<bcomment>/\*)
  | (?P<rawstr>b?r(?P<hashes>\#*)")
  | (?P<str>b?"(?:[^"\\]|\\.)*")
  | (?P<char>b?'(?:[^'\\\n]|\\(?:x[0-9a-fA-F]{2}|u\{[0-9a-fA-F_]+\}|.))')
  | (?P<lifetime>'[A-Za-z_][A-Za-z0-9_]*)
  | (?P<num>[0-9][0-9A-Za-z_]*(?:\.[0-9][0-9A-Za-z_]*)?(?:[eE][+-]?[0-9_]+)?(?:_?[fiu](?:8|16|32|64|128|size))?)
  | (?P<ident>[A-Za-z_][A-Za-z0-9_]*)
  | (?P<punct>::|->|=>|==|!=|<=|>=|&&|\|\||\+=|-=|\*=|/=|%=|\^=|&=|\|=|<<=|>>=|<<|>>|\.\.=|\.\.\.|\.\.|[-+*/%^!&|=<>@.,;:#$?~\\(){}\[\]])
""", re.X)


class Tok:
    __slots__ = ("kind", "text", "start", "end")

    def __init__(self, kind, text, start, end):
        self.kind, self.text, self.start, self.end = kind, text, start, end

    def __repr__(self):
        return "Tok(%s,%r,%d)" % (self.kind, self.text, self.start)


def lex(src, keep_comments=False):
    toks = []
    i, n = 0, len(src)
    while i < n:
        m = TOKEN_RE.match(src, i)
        if not m:
            raise ValueError("lex error at %d: %r" % (i, src[i:i + 30]))
        k = m.lastgroup
        if k == "hashes":
            k = "rawstr"
        if k == "ws":
            i = m.end()
            continue
        if k == "lcomment":
            if keep_comments:
                toks.append(Tok("comment", m.group(0), i, m.end()))
            i = m.end()
            continue
        if k == "bcomment":
            depth, j = 1, m.end()
            while depth and j < n:
                if src.startswith("/*", j):
                    depth += 1
                    j += 2
                elif src.startswith("*/", j):
                    depth -= 1
                    j += 2
                else:
                    j += 1
            if keep_comments:
                toks.append(Tok("comment", src[i:j], i, j))
            i = j
            continue
        if k == "rawstr":
            hashes = m.group("hashes")
            close = '"' + hashes
            j = src.index(close, m.end()) + len(close)
            toks.append(Tok("str", src[i:j], i, j))
            i = j
            continue
        toks.append(Tok(k, m.group(0), i, m.end()))
        i = m.end()
    return toks


OPEN = {"(": ")", "[": "]", "{": "}"}
CLOSE = {v: k for k, v in OPEN.items()}


def match_delims(toks):
    """map index of each open delimiter to its closing index and back"""
    stack, pair = [], {}
    for i, t in enumerate(toks):
        if t.kind != "punct":
            continue
        if t.text in OPEN:
            stack.append(i)
        elif t.text in CLOSE:
            if not stack:
                raise ValueError("unbalanced close at byte %d" % t.start)
            j = stack.pop()
            if OPEN[toks[j].text] != t.text:
                raise ValueError("mismatched delimiters at byte %d" % t.start)
            pair[j] = i
            pair[i] = j
    if stack:
        raise ValueError("unbalanced open at byte %d" % toks[stack[-1]].start)
    return pair


ITEM_KW = {"fn", "struct", "enum", "trait", "impl", "mod", "use", "const", "static", "type", "macro_rules", "extern", "union"}


class Item:
    """one item in a token range [lo, hi)"""

    def __init__(self):
        self.attrs = []        # list of (lo, hi) token ranges of outer attributes
        self.lo = self.hi = 0  # token range of the whole item including attributes
        self.vis_lo = 0        # first token after the attributes
        self.kind = None       # fn/struct/enum/trait/impl/mod/use/const/type/macro_rules/macro_call
        self.name = None
        self.kw = 0            # token index of the keyword
        self.body = None       # (open_idx, close_idx) of the {...} body if any
        self.header_norm = None

    def __repr__(self):
        return "Item(%s %s)" % (self.kind, self.name or self.header_norm)


def norm(toks, lo, hi):
    return " ".join(t.text for t in toks[lo:hi]).replace(">>", "> >")


def split_items(toks, pair, lo, hi):
    """split tokens[lo:hi] (the inside of a file, mod, impl or trait) into items"""
    items = []
    i = lo
    while i < hi:
        it = Item()
        it.lo = i
        # outer attributes  #[...]  (inner attributes #![...] are skipped as their own pseudo item)
        while i < hi and toks[i].text == "#":
            j = i + 1
            if j < hi and toks[j].text == "!":
                j += 1
            assert toks[j].text == "[", "attribute expected at byte %d" % toks[i].start
            it.attrs.append((i, pair[j] + 1))
            i = pair[j] + 1
        it.vis_lo = i
        if i >= hi:
            break
        # visibility
        if toks[i].text == "pub":
            i += 1
            if i < hi and toks[i].text == "(":
                i = pair[i] + 1
        # qualifiers
        while i < hi and toks[i].text in ("unsafe", "async", "default") or (
                i < hi and toks[i].text == "const" and toks[i + 1].text in ("fn", "unsafe", "async")) or (
                i < hi and toks[i].text == "extern" and toks[i + 1].kind == "str"):
            i += 2 if toks[i].text == "extern" else 1
        t = toks[i]
        if t.kind == "ident" and t.text in ITEM_KW:
            it.kw = i
            it.kind = t.text
            if t.text == "macro_rules":
                # macro_rules ! name { ... }
                it.name = toks[i + 2].text
                j = i + 3
                it.body = (j, pair[j])
                i = pair[j] + 1
                if i < hi and toks[i].text == ";":
                    i += 1
            elif t.text == "impl":
                j = i + 1
                while toks[j].text != "{":
                    j = pair[j] + 1 if toks[j].text in ("(", "[") else j + 1
                it.header_norm = norm(toks, i, j)
                it.body = (j, pair[j])
                i = pair[j] + 1
            elif t.text in ("use", "extern"):
                j = i
                while toks[j].text != ";":
                    j = pair[j] + 1 if toks[j].text in OPEN else j + 1
                it.name = norm(toks, i + 1, j)
                i = j + 1
            elif t.text in ("const", "static"):
                it.name = toks[i + 1].text if toks[i + 1].text != "mut" else toks[i + 2].text
                j = i
                while toks[j].text != ";":
                    j = pair[j] + 1 if toks[j].text in OPEN else j + 1
                i = j + 1
            elif t.text == "type":
                it.name = toks[i + 1].text
                j = i
                while toks[j].text != ";":
                    j = pair[j] + 1 if toks[j].text in OPEN else j + 1
                i = j + 1
            else:  # fn struct enum trait mod union
                it.name = toks[i + 1].text
                j = i + 2
                while True:
                    tx = toks[j].text
                    if tx == ";":
                        i = j + 1
                        break
                    if tx == "{":
                        it.body = (j, pair[j])
                        i = pair[j] + 1
                        break
                    j = pair[j] + 1 if tx in ("(", "[") else j + 1
                if it.kind == "struct" and it.body is None:
                    pass
        else:
            # macro invocation  path ! (...) ;   or  path ! { ... }
            it.kind = "macro_call"
            j = i
            while toks[j].text != "!":
                j += 1
            it.name = norm(toks, i, j).replace(" ", "")
            it.kw = i
            j += 1
            it.body = (j, pair[j])
            i = pair[j] + 1
            if i < hi and toks[i].text == ";":
                i += 1
        it.hi = i
        items.append(it)
    return items


def is_cfg_test(toks, it):
    for (a, b) in it.attrs:
        s = norm(toks, a, b).replace(" ", "")
        if s.startswith("#[cfg(test)") or s.startswith("#[cfg(feature="):
            return True
        if s.startswith("#[cfg(all(") or s.startswith("#[cfg(not("):
            return True
    return False
