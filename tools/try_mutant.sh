#!/bin/sh
# usage: tools/try_mutant.sh <patch.diff> <Cxx> [<Cyy> ...]
# applies the patch to a scratch worktree of /repo HEAD (never to /repo), runs the checks against it with scratch
# build and evidence directories, removes everything afterwards.  Extra check flags via CHECK_FLAGS.
P="$(readlink -f "$1")"; shift
W=/tmp/tryw.$$; B=/tmp/tryb.$$; E=/tmp/trye.$$
git -C /repo worktree add -q --detach $W HEAD || exit 3
mkdir -p $B $E
cleanup() { git -C /repo worktree remove --force $W; rm -rf $W $B $E; }
(cd $W && git apply "$P") || { echo "PATCH DOES NOT APPLY"; cleanup; exit 3; }
[ -n "$WITH_KANI" ] && cp -r /verif/build/kani-target* $B/ 2>/dev/null
for c in "$@"; do
  VERIF_REPO=$W VERIF_BUILD=$B VERIF_EVIDENCE=$E /verif/check "$c" --no-cover $( [ -n "$WITH_KANI" ] || echo --no-kani ) $CHECK_FLAGS > /tmp/try_$c.log 2>&1; rc=$?
  echo "== $c rc=$rc"; grep -E "^(VIOLATION|UNDECIDED|KNOWN|  obligation|C[0-9]+:)" /tmp/try_$c.log | head -12
done
cleanup
