#!/bin/sh
# usage: tools/try_mutant.sh <patch.diff> <Cxx> [<Cyy> ...]   -- applies the patch to /repo, runs the checks, reverts
P="$1"; shift
cd /repo && git apply "$P" || { echo "PATCH DOES NOT APPLY"; exit 3; }
cd /verif
for c in "$@"; do
  ./check "$c" > /tmp/try_$c.log 2>&1; rc=$?
  echo "== $c rc=$rc"; grep -E "^(VIOLATION|UNDECIDED|KNOWN|  obligation|C[0-9]+:)" /tmp/try_$c.log | head -12
done
cd /repo && git checkout -- . && git status --short | head -3
