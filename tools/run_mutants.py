#!/usr/bin/env python3
"""apply every seeded patch in turn to a scratch worktree of /repo (never to /repo itself), run the check of its
property against that worktree, collect the outcome.  Workers run in parallel, each with its own worktree, build
directory and evidence directory under /tmp, all removed at the end.
usage: tools/run_mutants.py [-w N] [dir ...]      (default: seeded/C*/)
output: one line per (change, property):  dir | property | exit code | first failing obligation / reason"""
import glob, json, os, re, shutil, subprocess, sys, threading, queue
VERIF = os.path.dirname(os.path.dirname(os.path.abspath(__file__)))
args = sys.argv[1:]
W = 4
if args[:1] == ["-w"]:
    W = int(args[1]); args = args[2:]
dirs = args or sorted(glob.glob(VERIF + "/seeded/C*/"))
q = queue.Queue()
for d in dirs:
    if os.path.exists(os.path.join(d, "patch.diff")):
        q.put(d)
rows, lock = [], threading.Lock()

def sh(*a, **k):
    return subprocess.run(list(a), capture_output=True, text=True, **k)

def worker(i):
    wt, bd, ev = "/tmp/mutw%d" % i, "/tmp/mutb%d" % i, "/tmp/mute%d" % i
    sh("git", "-C", "/repo", "worktree", "remove", "--force", wt)
    shutil.rmtree(wt, ignore_errors=True); shutil.rmtree(bd, ignore_errors=True); shutil.rmtree(ev, ignore_errors=True)
    r = sh("git", "-C", "/repo", "worktree", "add", "--detach", wt, "HEAD")
    assert r.returncode == 0, r.stderr
    os.makedirs(bd); os.makedirs(ev)
    for t in glob.glob("/verif/build/kani-target*"):
        sh("cp", "-r", t, bd)
    env = dict(os.environ, VERIF_REPO=wt, VERIF_BUILD=bd, VERIF_EVIDENCE=ev, VERIF_KANI_J=str(max(2, 16 // W)))
    try:
        while True:
            try:
                d = q.get_nowait()
            except queue.Empty:
                return
            prop = re.search(r"(C\d\d)", d).group(1)
            props = [prop]
            meta = os.path.join(d, "meta.json")
            if os.path.exists(meta):
                props = json.load(open(meta)).get("check_with", props)
            r = sh("git", "-C", wt, "apply", os.path.join(d, "patch.diff"))
            if r.returncode != 0:
                with lock:
                    rows.append((d, prop, "patch does not apply", r.stderr.strip()[:100]))
                continue
            try:
                for pr in props:
                    c = sh(VERIF + "/check", pr, "--no-cover", *(["--no-kani"] if os.environ.get("NOKANI") else []), cwd=VERIF, env=env)
                    first = [l.strip() for l in c.stdout.split("\n") if l.startswith("  obligation:") or l.startswith("UNDECIDED") or l.startswith("VIOLATION")]
                    with lock:
                        rows.append((d, pr, "exit %d" % c.returncode, " ;; ".join(first[:3])[:300]))
                        print(" | ".join(rows[-1]), flush=True)
            finally:
                sh("git", "-C", wt, "checkout", "--", ".")
                sh("git", "-C", wt, "clean", "-fdq")
    finally:
        sh("git", "-C", "/repo", "worktree", "remove", "--force", wt)
        shutil.rmtree(wt, ignore_errors=True); shutil.rmtree(bd, ignore_errors=True); shutil.rmtree(ev, ignore_errors=True)

ts = [threading.Thread(target=worker, args=(i,)) for i in range(W)]
for t in ts: t.start()
for t in ts: t.join()
print("==== sorted")
for r in sorted(rows):
    print(" | ".join(r))
