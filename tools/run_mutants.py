#!/usr/bin/env python3
"""apply every seeded patch to /repo in turn, run the check of its property (and optionally others), revert.
usage: tools/run_mutants.py [dir ...]   (default: seeded/_incoming/*-out/* and seeded/C*/)"""
import glob, json, os, re, subprocess, sys
dirs = sys.argv[1:] or sorted(glob.glob("/verif/seeded/_incoming/*-out/*/")) + sorted(glob.glob("/verif/seeded/C*/"))
rows = []
for d in dirs:
    p = os.path.join(d, "patch.diff")
    if not os.path.exists(p):
        continue
    m = re.search(r"(C\d\d)", d)
    prop = m.group(1)
    meta = os.path.join(d, "meta.json")
    props = [prop]
    if os.path.exists(meta):
        props = json.load(open(meta)).get("check_with", props)
    r = subprocess.run(["git", "-C", "/repo", "apply", p], capture_output=True, text=True)
    if r.returncode != 0:
        rows.append((d, prop, "patch does not apply", ""))
        continue
    try:
        for pr in props:
            c = subprocess.run(["/verif/check", pr, "--no-cover"] + (["--no-kani"] if os.environ.get("NOKANI") else []), capture_output=True, text=True, cwd="/verif")
            first = [l for l in c.stdout.split("\n") if l.startswith("  obligation:") or l.startswith("UNDECIDED")]
            rows.append((d, pr, "exit %d" % c.returncode, (first[0] if first else "")[:160]))
    finally:
        subprocess.run(["git", "-C", "/repo", "checkout", "--", "."])
for r in rows:
    print(" | ".join(r))
