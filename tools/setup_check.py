#!/usr/bin/env python3
"""setup: verify that the offline tool chain is present; nothing is downloaded or built ahead of time
(checks regenerate everything from /repo on every run)."""
import shutil, subprocess, sys
ok = True
for t in ("verus", "cargo", "cargo-kani", "cbmc"):
    if shutil.which(t) is None:
        print("missing tool:", t); ok = False
sys.exit(0 if ok else 1)
