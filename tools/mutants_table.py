#!/usr/bin/env python3
"""turn the output of tools/run_mutants.py (one or more files) into notes/mutants.md"""
import json, os, re, sys
VERIF = os.path.dirname(os.path.dirname(os.path.abspath(__file__)))
rows = {}
for f in sys.argv[1:]:
    for l in open(f):
        m = re.match(r"^\S*seeded/(C\d\d-[A-Z])/ \| (C\d\d) \| exit (\d) \| ?(.*)$", l.rstrip("\n"))
        if m:
            rows[(m.group(1), m.group(2))] = (int(m.group(3)), m.group(4))
out = ["# Seeded changes against the checks", "",
       "Each change was produced by a sub-agent that saw only the property text and a scratch worktree (C05-C is the revert of a fix, made by hand), was confirmed here (demo passes on the clean tree, fails with the change, existing suite passes with the change) and is stored under `/verif/seeded/<id>/`. "
       "`tools/run_mutants.py` applies each patch to a scratch worktree of /repo HEAD and runs the check of its property there (quick tier, vacuity companion off).", "",
       "| change | what it does | outcome | first failing obligation / reason |", "|---|---|---|---|"]
cnt = {0: 0, 1: 0, 2: 0}
for (mid, prop), (rc, txt) in sorted(rows.items()):
    meta = {}
    p = os.path.join(VERIF, "seeded", mid, "meta.json")
    if os.path.exists(p):
        meta = json.load(open(p))
    parts = txt.split(" ;; ")
    ob = [x.split("obligation: ", 1)[1] for x in parts if x.startswith("obligation: ")]
    und = [re.sub(r"^UNDECIDED property=\S+ ", "", x) for x in parts if x.startswith("UNDECIDED")]
    what = (ob[0] if ob else (und[0] if und else "")).strip()
    what = what.replace("|", "\\|")[:170]
    kind = {0: "**missed** (exit 0)", 1: "caught (VIOLATION)" + ("" if "no-failing-input-found" in txt.split(";;")[0] else ", with Kani counterexample"), 2: "undecided (exit 2)"}[rc]
    cnt[rc] += 1
    out.append("| %s | %s | %s | `%s` |" % (mid, meta.get("change", "")[:150].replace("|", "\\|").replace("\n", " "), kind, what))
out += ["", "Totals: %d caught, %d undecided, %d missed (of %d)." % (cnt[1], cnt[2], cnt[0], sum(cnt.values())), ""]
open(os.path.join(VERIF, "notes", "mutants.md"), "w").write("\n".join(out))
print(out[-2])
