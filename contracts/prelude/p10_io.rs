// ============================================================================================
// A1  io model  (TRUSTED: hand-written specification of std::io::{Read, Write, Seek})
// ============================================================================================
pub mod vp_io {
use vstd::prelude::*;
use std::io::{Read, Write, Seek, SeekFrom};

#[verifier::external_type_specification]
#[verifier::external_body]
pub struct ExIoError(std::io::Error);

#[verifier::external_type_specification]
pub struct ExSeekFrom(std::io::SeekFrom);

#[verifier::external_type_specification]
pub struct ExErrorKind(std::io::ErrorKind);

pub assume_specification[<std::io::Error as From<std::io::ErrorKind>>::from](k: std::io::ErrorKind) -> std::io::Error;
pub assume_specification[std::io::Error::kind](e: &std::io::Error) -> std::io::ErrorKind;

/// positional write: overwrite/extend `s` at `p` with `b` (a gap is zero filled)
pub open spec fn splice(s: Seq<u8>, p: nat, b: Seq<u8>) -> Seq<u8> {
    if b.len() == 0 { s } else {
    let pre = if p <= s.len() { s.take(p as int) } else { s + Seq::new((p - s.len()) as nat, |i: int| 0u8) };
    let post = if p + b.len() <= s.len() { s.skip((p + b.len()) as int) } else { Seq::<u8>::empty() };
    pre + b + post
    }
}

// ---- Write -----------------------------------------------------------------------------------
// ghost state of a destination: `out` = bytes held, `wpos` = cursor, `nfail` = number of failed
// operations so far, `nflush` = number of successful flushes, `flushed_len` = bytes covered by the
// last successful flush.
#[verifier::external_trait_specification]
#[verifier::external_trait_extension(WriteSpec via WriteSpecImpl)]
pub trait ExWrite {
    type ExternalTraitSpecificationFor: std::io::Write;
    spec fn out(&self) -> Seq<u8>;
    spec fn wpos(&self) -> nat;
    spec fn nfail(&self) -> nat;
    spec fn nops(&self) -> nat;
    spec fn clean(&self) -> bool;      // everything written so far has been flushed

    fn write_all(&mut self, buf: &[u8]) -> (r: Result<(), std::io::Error>)
        ensures
            (*final(self)).nops() == (*old(self)).nops() + 1,
            r is Ok ==> (*final(self)).out() == splice((*old(self)).out(), (*old(self)).wpos(), buf@)
                && (*final(self)).wpos() == (*old(self)).wpos() + buf@.len()
                && (*final(self)).nfail() == (*old(self)).nfail(),
            // a failing write is counted (which prefix of the buffer was persisted is left open)
            r is Err ==> (*final(self)).nfail() == (*old(self)).nfail() + 1;

    fn flush(&mut self) -> (r: Result<(), std::io::Error>)
        ensures
            (*final(self)).nops() == (*old(self)).nops() + 1,
            (*final(self)).out() == (*old(self)).out(),
            (*final(self)).wpos() == (*old(self)).wpos(),
            r is Ok ==> (*final(self)).nfail() == (*old(self)).nfail() && (*final(self)).clean(),
            r is Err ==> (*final(self)).nfail() == (*old(self)).nfail() + 1;

    /// raw `write` may accept fewer bytes than offered: the library must never call it directly
    /// (short-write clause of C12): calling it is an unprovable precondition.
    fn write(&mut self, buf: &[u8]) -> (r: Result<usize, std::io::Error>)
        requires false;
}

// ---- Read ------------------------------------------------------------------------------------
// ghost state of a source: `data` = full content (never changes), `rpos` = cursor,
// `rfail` = failed operations so far, `reliable` = the source only fails when data is missing.
#[verifier::external_trait_specification]
#[verifier::external_trait_extension(ReadSpec via ReadSpecImpl)]
pub trait ExRead {
    type ExternalTraitSpecificationFor: std::io::Read;
    spec fn data(&self) -> Seq<u8>;
    spec fn rpos(&self) -> nat;
    spec fn rfail(&self) -> nat;
    spec fn reliable(&self) -> bool;

    fn read_exact(&mut self, buf: &mut [u8]) -> (r: Result<(), std::io::Error>)
        ensures
            (*final(self)).data() == (*old(self)).data(),
            (*final(self)).reliable() == (*old(self)).reliable(),
            final(buf)@.len() == old(buf)@.len(),
            r is Ok ==> (*old(self)).rpos() + old(buf)@.len() <= (*old(self)).data().len()
                && final(buf)@ == (*old(self)).data().subrange((*old(self)).rpos() as int, ((*old(self)).rpos() + old(buf)@.len()) as int)
                && (*final(self)).rpos() == (*old(self)).rpos() + old(buf)@.len()
                && (*final(self)).rfail() == (*old(self)).rfail(),
            r is Err ==> (*final(self)).rfail() == (*old(self)).rfail() + 1,
            ((*old(self)).reliable() && (*old(self)).rpos() + old(buf)@.len() <= (*old(self)).data().len()) ==> r is Ok;

    /// raw `read` may return fewer bytes than asked (short-read clause of C13): never called directly.
    fn read(&mut self, buf: &mut [u8]) -> (r: Result<usize, std::io::Error>)
        requires false;
}

// ---- Seek ------------------------------------------------------------------------------------
#[verifier::external_trait_specification]
#[verifier::external_trait_extension(SeekSpec via SeekSpecImpl)]
pub trait ExSeek {
    type ExternalTraitSpecificationFor: std::io::Seek;
    spec fn spos(&self) -> nat;
    spec fn slen(&self) -> nat;
    spec fn scontent(&self) -> Seq<u8>;     // the bytes held (a seek never changes them)
    spec fn sreliable(&self) -> bool;
    spec fn sfail(&self) -> nat;
    spec fn sops(&self) -> nat;

    fn seek(&mut self, pos: SeekFrom) -> (r: Result<u64, std::io::Error>)
        ensures
            (*final(self)).slen() == (*old(self)).slen(),
            (*final(self)).scontent() == (*old(self)).scontent(),
            (*final(self)).sreliable() == (*old(self)).sreliable(),
            (*final(self)).sops() == (*old(self)).sops() + 1,
            // std: "If the seek operation completed successfully, this method returns the new position from the start of the stream"
            r is Ok ==> r->Ok_0 == (*final(self)).spos(),
            r is Ok ==> (*final(self)).sfail() == (*old(self)).sfail() && match pos {
                SeekFrom::Start(n) => (*final(self)).spos() == n,
                SeekFrom::End(d) => d == 0 ==> (*final(self)).spos() == (*old(self)).slen(),
                SeekFrom::Current(d) => true,
            },
            r is Err ==> (*final(self)).sfail() == (*old(self)).sfail() + 1 && (*final(self)).spos() == (*old(self)).spos(),
            // a reliable source fails only for lack of data, and moving the cursor needs none
            (*old(self)).sreliable() ==> r is Ok;

    fn stream_position(&mut self) -> (r: Result<u64, std::io::Error>)
        ensures
            (*final(self)).slen() == (*old(self)).slen(),
            (*final(self)).scontent() == (*old(self)).scontent(),
            (*final(self)).sreliable() == (*old(self)).sreliable(),
            (*final(self)).spos() == (*old(self)).spos(),
            (*final(self)).sops() == (*old(self)).sops() + 1,
            r is Ok ==> (*final(self)).sfail() == (*old(self)).sfail() && r->Ok_0 == (*old(self)).spos(),
            r is Err ==> (*final(self)).sfail() == (*old(self)).sfail() + 1;
}

// A6: `for x in s` with `s: &mut [T]` desugars to `<&mut [T] as IntoIterator>::into_iter(s)`, which is
// `s.iter_mut()` in std; vstd specifies `iter_mut` but not this impl.
pub assume_specification<'a, T>[<&'a mut [T] as IntoIterator>::into_iter](s: &'a mut [T]) -> (r: std::slice::IterMut<'a, T>)
    ensures call_ensures(<[T]>::iter_mut, (s,), r);

// A6: std functions used by the library that vstd does not specify
pub assume_specification<T: Copy>[Option::<&T>::copied](o: Option<&T>) -> (r: Option<T>)
    ensures o is None ==> r is None, o is Some ==> r == Some(*o->Some_0);

pub assume_specification<T>[<[T]>::reverse](s: &mut [T])
    ensures final(s)@ == old(s)@.reverse();

pub assume_specification<T>[core::mem::replace::<T>](dest: &mut T, src: T) -> (r: T)
    ensures *final(dest) == src, r == *old(dest);

// A destination that is both Write and Seek has ONE cursor, ONE content, one failure counter.
pub uninterp spec fn ws_linked<T: Write + Seek>(t: &T) -> bool;
pub broadcast axiom fn ax_ws_pos<T: Write + Seek>(t: &T)
    ensures #[trigger] t.wpos() == t.spos();
pub broadcast axiom fn ax_ws_pos2<T: Write + Seek>(t: &T)
    ensures t.wpos() == #[trigger] t.spos();
pub broadcast axiom fn ax_ws_len<T: Write + Seek>(t: &T)
    ensures #[trigger] t.out().len() == t.slen();
pub broadcast axiom fn ax_ws_len2<T: Write + Seek>(t: &T)
    ensures t.out().len() == #[trigger] t.slen();
pub broadcast axiom fn ax_ws_fail<T: Write + Seek>(t: &T)
    ensures #[trigger] t.nfail() == t.sfail();
pub broadcast axiom fn ax_ws_fail2<T: Write + Seek>(t: &T)
    ensures t.nfail() == #[trigger] t.sfail();
pub broadcast axiom fn ax_ws_ops<T: Write + Seek>(t: &T)
    ensures #[trigger] t.nops() == t.sops();
pub broadcast axiom fn ax_ws_ops2<T: Write + Seek>(t: &T)
    ensures t.nops() == #[trigger] t.sops();
// seeking does not change the content of a destination / whether it is flushed is not preserved
pub broadcast axiom fn ax_ws_content<T: Write + Seek>(t: &T)
    ensures #[trigger] t.out() == t.scontent();
pub broadcast axiom fn ax_ws_content2<T: Write + Seek>(t: &T)
    ensures t.out() == #[trigger] t.scontent();
pub broadcast group g_ws { ax_ws_content, ax_ws_content2, ax_ws_pos, ax_ws_pos2, ax_ws_len, ax_ws_len2, ax_ws_fail, ax_ws_fail2, ax_ws_ops, ax_ws_ops2 }

// A source that is both Read and Seek has ONE cursor and its length is the data length.
pub broadcast axiom fn ax_rs_pos<T: Read + Seek>(t: &T)
    ensures #[trigger] t.rpos() == t.spos();
pub broadcast axiom fn ax_rs_pos2<T: Read + Seek>(t: &T)
    ensures t.rpos() == #[trigger] t.spos();
pub broadcast axiom fn ax_rs_len<T: Read + Seek>(t: &T)
    ensures #[trigger] t.data().len() == t.slen();
pub broadcast axiom fn ax_rs_len2<T: Read + Seek>(t: &T)
    ensures t.data().len() == #[trigger] t.slen();
pub broadcast axiom fn ax_rs_fail<T: Read + Seek>(t: &T)
    ensures #[trigger] t.rfail() == t.sfail();
pub broadcast axiom fn ax_rs_fail2<T: Read + Seek>(t: &T)
    ensures t.rfail() == #[trigger] t.sfail();
pub broadcast axiom fn ax_rs_content<T: Read + Seek>(t: &T)
    ensures #[trigger] t.data() == t.scontent();
pub broadcast axiom fn ax_rs_content2<T: Read + Seek>(t: &T)
    ensures t.data() == #[trigger] t.scontent();
pub broadcast axiom fn ax_rs_rel<T: Read + Seek>(t: &T)
    ensures #[trigger] t.reliable() == t.sreliable();
pub broadcast axiom fn ax_rs_rel2<T: Read + Seek>(t: &T)
    ensures t.reliable() == #[trigger] t.sreliable();
pub broadcast group g_rs { ax_rs_content, ax_rs_content2, ax_rs_rel, ax_rs_rel2, ax_rs_pos, ax_rs_pos2, ax_rs_len, ax_rs_len2, ax_rs_fail, ax_rs_fail2 }

/// the effect of one successful `write_all(b)`: positional write, cursor advanced, no failure.
/// Closed: callers reason with the lemmas below (keeps the SMT queries small).
pub closed spec fn wr<W: Write + ?Sized>(o: &W, f: &W, b: Seq<u8>) -> bool {
    f.out() == splice(o.out(), o.wpos(), b) && f.wpos() == o.wpos() + b.len() && f.nfail() == o.nfail()
}
pub proof fn lemma_wr_unfold<W: Write + ?Sized>(o: &W, f: &W, b: Seq<u8>)
    ensures wr(o, f, b) <==> (f.out() == splice(o.out(), o.wpos(), b) && f.wpos() == o.wpos() + b.len() && f.nfail() == o.nfail())
{
}
/// a raw `write_all` result is a `wr` step
pub broadcast proof fn lemma_wr_intro<W: Write + ?Sized>(o: &W, f: &W, b: Seq<u8>)
    requires #[trigger] f.out() == #[trigger] splice(o.out(), o.wpos(), b), f.wpos() == o.wpos() + b.len(), f.nfail() == o.nfail()
    ensures wr(o, f, b)
{
}
pub broadcast proof fn lemma_wr_facts<W: Write + ?Sized>(o: &W, f: &W, b: Seq<u8>)
    requires #[trigger] wr(o, f, b)
    ensures f.wpos() == o.wpos() + b.len(), f.nfail() == o.nfail(),
        f.out().len() == (if b.len() == 0 || o.wpos() + b.len() <= o.out().len() { o.out().len() } else { o.wpos() + b.len() }),
{
    lemma_splice_len(o.out(), o.wpos(), b);
}
/// marker (always true): names the state from which a function accumulates its writes.  The
/// chaining lemma only fires from a marked origin, which keeps the number of derived facts linear.
pub open spec fn origin<W: Write + ?Sized>(o: &W) -> bool { true }
pub broadcast proof fn lemma_wr_wr<W: Write + ?Sized>(o: &W, m: &W, f: &W, a: Seq<u8>, b: Seq<u8>)
    requires #[trigger] origin(o), #[trigger] wr(o, m, a), #[trigger] wr(m, f, b)
    ensures wr(o, f, a + b)
{
    assert(splice(splice(o.out(), o.wpos(), a), o.wpos() + a.len(), b) =~= splice(o.out(), o.wpos(), a + b));
}
pub proof fn lemma_wr_empty<W: Write + ?Sized>(o: &W)
    ensures wr(o, o, Seq::<u8>::empty())
{
}
pub broadcast proof fn lemma_wr_append<W: Write + ?Sized>(o: &W, f: &W, b: Seq<u8>)
    requires #[trigger] wr(o, f, b), at_end(o)
    ensures f.out() == o.out() + b, at_end(f)
{
    lemma_splice_end(o.out(), o.wpos(), b);
}
/// overwriting inside the existing content keeps the length and everything outside the window
pub proof fn lemma_wr_inside<W: Write + ?Sized>(o: &W, f: &W, b: Seq<u8>)
    requires wr(o, f, b), o.wpos() + b.len() <= o.out().len()
    ensures
        f.out().len() == o.out().len(),
        f.out().subrange(0, o.wpos() as int) == o.out().subrange(0, o.wpos() as int),
        f.out().subrange(o.wpos() as int, (o.wpos() + b.len()) as int) == b,
        f.out().subrange((o.wpos() + b.len()) as int, o.out().len() as int) == o.out().subrange((o.wpos() + b.len()) as int, o.out().len() as int),
{
    lemma_splice_inside(o.out(), o.wpos(), b);
}
/// writing at offset 0 at least as many bytes as the destination holds replaces the whole content
pub broadcast proof fn lemma_wr_at_zero<W: Write + ?Sized>(o: &W, f: &W, b: Seq<u8>)
    requires #[trigger] wr(o, f, b), o.wpos() == 0, o.out().len() <= b.len(), b.len() > 0
    ensures f.out() == b, at_end(f)
{
    assert(splice(o.out(), 0, b) =~= b);
}
pub broadcast group g_wr { lemma_wr_intro, lemma_wr_facts, lemma_wr_wr, lemma_wr_append, lemma_wr_at_zero }

/// destination is in append position
pub open spec fn at_end<W: Write + ?Sized>(w: &W) -> bool { w.wpos() == w.out().len() }

pub broadcast proof fn lemma_splice_end(s: Seq<u8>, p: nat, b: Seq<u8>)
    requires p == s.len()
    ensures #[trigger] splice(s, p, b) == s + b
{
    assert(splice(s, p, b) =~= s + b);
}

pub broadcast proof fn lemma_splice_len(s: Seq<u8>, p: nat, b: Seq<u8>)
    ensures (#[trigger] splice(s, p, b)).len() == if b.len() == 0 || p + b.len() <= s.len() { s.len() } else { p + b.len() }
{
}

/// overwriting inside: prefix and suffix are kept
pub broadcast proof fn lemma_splice_inside(s: Seq<u8>, p: nat, b: Seq<u8>)
    requires p + b.len() <= s.len()
    ensures
        (#[trigger] splice(s, p, b)).len() == s.len(),
        splice(s, p, b).subrange(0, p as int) == s.subrange(0, p as int),
        splice(s, p, b).subrange(p as int, (p + b.len()) as int) == b,
        splice(s, p, b).subrange((p + b.len()) as int, s.len() as int) == s.subrange((p + b.len()) as int, s.len() as int),
{
    let r = splice(s, p, b);
    assert(r.subrange(0, p as int) =~= s.subrange(0, p as int));
    assert(r.subrange(p as int, (p + b.len()) as int) =~= b);
    assert(r.subrange((p + b.len()) as int, s.len() as int) =~= s.subrange((p + b.len()) as int, s.len() as int));
}

} // mod vp_io
