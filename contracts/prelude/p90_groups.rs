// broadcast groups used by the extracted modules (one module-level `broadcast use` is allowed per module)
pub mod vp_all {
use vstd::prelude::*;
/// io + bytes + layout constants
pub broadcast group g_io {
    crate::vp_bytes::g_bytes, vstd::layout::group_layout_axioms, crate::vp_io::g_ws, crate::vp_io::g_rs,
    crate::vp_io::lemma_splice_len, crate::vp_io::g_wr, crate::vl_types::lemma_discriminants,
}
/// the above plus the float order theory
pub broadcast group g_io_f {
    crate::vp_bytes::g_bytes, vstd::layout::group_layout_axioms, crate::vp_io::g_ws, crate::vp_io::g_rs,
    crate::vp_io::lemma_splice_len, crate::vp_io::g_wr, crate::vl_types::lemma_discriminants, crate::vp_float::g_float,
}
/// io + float + the whitepaper array lemmas (modules below record::traits only)
pub broadcast group g_io_fl {
    crate::vp_bytes::g_bytes, vstd::layout::group_layout_axioms, crate::vp_io::g_ws, crate::vp_io::g_rs,
    crate::vp_io::lemma_splice_len, crate::vp_io::g_wr, crate::vl_types::lemma_discriminants, crate::vp_float::g_float,
    crate::vl_layout::lemma_enc_xys_push, crate::vl_layout::lemma_enc_ms_push, crate::vl_layout::lemma_enc_zs_push,
    crate::vl_layout::ax_size_of_point, crate::vl_layout::lemma_enc_xys_parts_push, crate::vl_layout::lemma_enc_ms_parts_push, crate::vl_layout::lemma_enc_zs_parts_push,
}
/// everything above plus the point-type elimination lemmas (shape modules)
pub broadcast group g_shapes {
    crate::vp_bytes::g_bytes, vstd::layout::group_layout_axioms, crate::vp_io::g_ws, crate::vp_io::g_rs,
    crate::vp_io::lemma_splice_len, crate::vp_io::g_wr, crate::vl_types::lemma_discriminants, crate::vp_float::g_float,
    crate::vl_layout::lemma_enc_xys_push, crate::vl_layout::lemma_enc_ms_push, crate::vl_layout::lemma_enc_zs_push,
    crate::vl_layout::ax_size_of_point, crate::vl_layout::lemma_enc_xys_parts_push, crate::vl_layout::lemma_enc_ms_parts_push, crate::vl_layout::lemma_enc_zs_parts_push,
    crate::vl_points::g_points,
}
/// io + sizes only (shape modules whose bodies compose the reader/writer steps)
pub broadcast group g_shape_rw {
    crate::vp_bytes::g_bytes, vstd::layout::group_layout_axioms, crate::vp_io::g_ws, crate::vp_io::g_rs,
    crate::vp_io::lemma_splice_len, crate::vp_io::g_wr, crate::vl_types::lemma_discriminants, crate::vl_layout::ax_size_of_point,
}
} // mod vp_all
