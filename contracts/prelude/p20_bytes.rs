// ============================================================================================
// A2  byteorder stand-in (TRUSTED contracts; same names and signatures as the byteorder crate so
//     that call sites such as `dest.write_f64::<LittleEndian>(self.x)?` stay verbatim)
// A3  float theory on bit patterns
// ============================================================================================
pub mod vp_bytes {
use vstd::prelude::*;
use std::io::{Read, Write};
use crate::vp_io::*;

// ---- byte encodings (uninterpreted; axioms cross-checked on the real crate by Kani K3) --------
// f64 values enter every axiom only through `fbits` (their 64-bit pattern as a mathematical
// integer): axioms quantified over `f64` do not fire on struct-field terms in this Verus version
// (missing typing facts for float fields), axioms quantified over `int` always do.
pub uninterp spec fn enc_i32(big: bool, v: i32) -> Seq<u8>;
pub uninterp spec fn dec_i32(big: bool, s: Seq<u8>) -> i32;
pub uninterp spec fn fbits(v: f64) -> int;            // bit pattern, 0 <= fbits < 2^64
pub uninterp spec fn f64_of(b: int) -> f64;           // the float with that bit pattern
pub uninterp spec fn enc_bits64(big: bool, b: int) -> Seq<u8>;
pub uninterp spec fn dec_bits64(big: bool, s: Seq<u8>) -> int;
pub open spec fn enc_f64(big: bool, v: f64) -> Seq<u8> { enc_bits64(big, fbits(v)) }
pub open spec fn dec_f64(big: bool, s: Seq<u8>) -> f64 { f64_of(dec_bits64(big, s)) }

pub broadcast axiom fn ax_enc_i32_len(big: bool, v: i32)
    ensures (#[trigger] enc_i32(big, v)).len() == 4;
pub broadcast axiom fn ax_enc_f64_len(big: bool, b: int)
    ensures (#[trigger] enc_bits64(big, b)).len() == 8;
pub broadcast axiom fn ax_dec_enc_i32(big: bool, v: i32)
    ensures dec_i32(big, #[trigger] enc_i32(big, v)) == v;
pub broadcast axiom fn ax_dec_enc_f64(big: bool, b: int)
    ensures dec_bits64(big, #[trigger] enc_bits64(big, b)) == b;
pub broadcast axiom fn ax_enc_dec_i32(big: bool, s: Seq<u8>)
    requires s.len() == 4
    ensures enc_i32(big, #[trigger] dec_i32(big, s)) == s;
pub broadcast axiom fn ax_enc_dec_f64(big: bool, s: Seq<u8>)
    requires s.len() == 8
    ensures enc_bits64(big, #[trigger] dec_bits64(big, s)) == s, 0 <= dec_bits64(big, s) < 0x1_0000_0000_0000_0000;
/// the bit pattern of a double is a 64-bit number (`f64::to_bits` returns a u64); not a broadcast axiom (quantified over
/// f64 it would not fire on struct fields): the round-trip lemmas call it explicitly
pub axiom fn ax_fbits_range(v: f64)
    ensures 0 <= fbits(v) < 0x1_0000_0000_0000_0000;
pub broadcast axiom fn ax_fbits_of(b: int)
    requires 0 <= b < 0x1_0000_0000_0000_0000
    ensures fbits(#[trigger] f64_of(b)) == b;

// A5 layout: size_of::<f64>() == 8  (vstd knows the integer sizes; checked by a const assertion in the Kani crate)
pub broadcast axiom fn ax_size_of_f64()
    ensures #[trigger] core::mem::size_of::<f64>() == 8;

/// bit-identical floats (C01: "bit-identical X, Y and Z values")
pub open spec fn same_bits(a: f64, b: f64) -> bool { fbits(a) == fbits(b) }

pub open spec fn le_i32(v: i32) -> Seq<u8> { enc_i32(false, v) }
pub open spec fn be_i32(v: i32) -> Seq<u8> { enc_i32(true, v) }
pub open spec fn le_f64(v: f64) -> Seq<u8> { enc_f64(false, v) }

/// decode at a byte position of a stream
pub open spec fn i32_at(d: Seq<u8>, p: int, big: bool) -> i32 { dec_i32(big, d.subrange(p, p + 4)) }
pub open spec fn f64_at(d: Seq<u8>, p: int) -> f64 { dec_f64(false, d.subrange(p, p + 8)) }

pub trait ByteOrder { spec fn big() -> bool; }
pub struct BigEndian;
pub struct LittleEndian;
impl ByteOrder for BigEndian { open spec fn big() -> bool { true } }
impl ByteOrder for LittleEndian { open spec fn big() -> bool { false } }

/// a failed write_all(b): the failure is counted
pub open spec fn wr_fail<W: Write + ?Sized>(o: &W, f: &W, b: Seq<u8>) -> bool {
    f.nfail() == o.nfail() + 1
}

pub trait WriteBytesExt: Write {
    fn write_i32<B: ByteOrder>(&mut self, n: i32) -> (r: Result<(), std::io::Error>)
        ensures
            r is Ok ==> wr(&*old(self), &*final(self), enc_i32(B::big(), n)),
            r is Err ==> wr_fail(&*old(self), &*final(self), enc_i32(B::big(), n)),
            (*final(self)).nops() == (*old(self)).nops() + 1;
    fn write_f64<B: ByteOrder>(&mut self, n: f64) -> (r: Result<(), std::io::Error>)
        ensures
            r is Ok ==> wr(&*old(self), &*final(self), enc_f64(B::big(), n)),
            r is Err ==> wr_fail(&*old(self), &*final(self), enc_f64(B::big(), n)),
            (*final(self)).nops() == (*old(self)).nops() + 1;
}
impl<W: Write> WriteBytesExt for W {
    #[verifier::external_body]
    fn write_i32<B: ByteOrder>(&mut self, n: i32) -> (r: Result<(), std::io::Error>) { unimplemented!() }
    #[verifier::external_body]
    fn write_f64<B: ByteOrder>(&mut self, n: f64) -> (r: Result<(), std::io::Error>) { unimplemented!() }
}

/// the effect of one successful `read_exact` of n bytes
pub open spec fn rd<R: Read + ?Sized>(o: &R, f: &R, n: nat) -> bool {
    f.data() == o.data() && f.reliable() == o.reliable()
        && (n > 0 ==> o.rpos() + n <= o.data().len()) && f.rpos() == o.rpos() + n && f.rfail() == o.rfail()
}
pub open spec fn rd_fail<R: Read + ?Sized>(o: &R, f: &R) -> bool {
    f.data() == o.data() && f.reliable() == o.reliable() && f.rfail() == o.rfail() + 1
}
/// a reliable source with n more bytes available
pub open spec fn can_read<R: Read + ?Sized>(o: &R, n: nat) -> bool {
    o.reliable() && o.rpos() + n <= o.data().len()
}

pub trait ReadBytesExt: Read {
    fn read_i32<B: ByteOrder>(&mut self) -> (r: Result<i32, std::io::Error>)
        ensures
            r is Ok ==> rd(&*old(self), &*final(self), 4) && r->Ok_0 == i32_at((*old(self)).data(), (*old(self)).rpos() as int, B::big()),
            r is Err ==> rd_fail(&*old(self), &*final(self)),
            can_read(&*old(self), 4) ==> r is Ok;
    fn read_f64<B: ByteOrder>(&mut self) -> (r: Result<f64, std::io::Error>)
        ensures
            r is Ok ==> rd(&*old(self), &*final(self), 8) && r->Ok_0 == dec_f64(B::big(), (*old(self)).data().subrange((*old(self)).rpos() as int, (*old(self)).rpos() + 8 as int)),
            r is Err ==> rd_fail(&*old(self), &*final(self)),
            can_read(&*old(self), 8) ==> r is Ok;
}
impl<R: Read> ReadBytesExt for R {
    #[verifier::external_body]
    fn read_i32<B: ByteOrder>(&mut self) -> (r: Result<i32, std::io::Error>) { unimplemented!() }
    #[verifier::external_body]
    fn read_f64<B: ByteOrder>(&mut self) -> (r: Result<f64, std::io::Error>) { unimplemented!() }
}

pub broadcast group g_bytes {
    ax_enc_i32_len, ax_enc_f64_len, ax_dec_enc_i32, ax_dec_enc_f64, ax_enc_dec_i32, ax_enc_dec_f64, ax_fbits_of, ax_size_of_f64,
}

} // mod vp_bytes
