// ============================================================================================
// A8  dbase stand-in (TRUSTED contracts read off dbase-0.6.1; only what shapefile-rs calls)
// ============================================================================================
pub mod dbase {
use vstd::prelude::*;

#[verifier::external_body]
#[derive(Debug)]
pub struct Error { _p: () }


/// stand-in for dbase::WritableRecord / ReadableRecord (marker only)
pub trait WritableRecord {}
pub trait ReadableRecord {}

/// stand-in for dbase::TableWriter<T>: only the row count is modelled.
/// Contract read off dbase-0.6.1 src/writing.rs (write_record): the row counter is incremented only
/// after the record was written; a record that fails validation is rejected before anything is counted.
#[verifier::external_body]
#[verifier::reject_recursive_types(T)]
pub struct TableWriter<T: std::io::Write + std::io::Seek> { _p: core::marker::PhantomData<T> }

impl<T: std::io::Write + std::io::Seek> TableWriter<T> {
    pub uninterp spec fn rows(&self) -> nat;

    #[verifier::external_body]
    pub fn write_record<R: WritableRecord>(&mut self, record: &R) -> (r: Result<(), Error>)
        ensures
            r is Ok ==> final(self).rows() == old(self).rows() + 1,
            r is Err ==> final(self).rows() == old(self).rows(),
    { unimplemented!() }
}

} // mod dbase
