// ============================================================================================
// A8  dbase stand-in (TRUSTED contracts read off dbase-0.6.1; only what shapefile-rs calls)
// ============================================================================================
pub mod dbase {
use vstd::prelude::*;

#[verifier::external_body]
#[derive(Debug)]
pub struct Error { _p: () }


/// stand-in for dbase::WritableRecord / ReadableRecord (marker only)
pub trait WritableRecord {}
pub trait ReadableRecord {}
/// stand-in for dbase::Record (the generic row type)
#[verifier::external_body]
pub struct Record { _p: () }
impl ReadableRecord for Record {}
impl WritableRecord for Record {}

/// stand-in for dbase::TableWriter<T>: only the row count is modelled.
/// Contract read off dbase-0.6.1 src/writing.rs (write_record): the row counter is incremented only
/// after the record was written; a record that fails validation is rejected before anything is counted.
#[verifier::external_body]
#[verifier::reject_recursive_types(T)]
pub struct TableWriter<T: std::io::Write + std::io::Seek> { _p: core::marker::PhantomData<T> }

impl<T: std::io::Write + std::io::Seek> TableWriter<T> {
    pub uninterp spec fn rows(&self) -> nat;

    #[verifier::external_body]
    pub fn write_record<R: WritableRecord>(&mut self, record: &R) -> (r: Result<(), Error>)
        ensures
            r is Ok ==> final(self).rows() == old(self).rows() + 1,
            r is Err ==> final(self).rows() == old(self).rows(),
    { unimplemented!() }
}

/// row `i` of a table decoded as `R` (uninterpreted: what dbase makes of the bytes is dbase's business)
pub uninterp spec fn row_of<R: ReadableRecord>(table: int, i: int) -> R;

/// stand-in for dbase::Reader<T>.  Ghost model (read off dbase-0.6.1 src/reading.rs; tables without deleted rows,
/// which is C08's quantifier): `table()` identifies the content (never changes), `num_rows()` is the header's
/// record count, `row_pos()` is the row the source is positioned on.
#[verifier::external_body]
#[verifier::reject_recursive_types(T)]
pub struct Reader<T: std::io::Read + std::io::Seek> { _p: core::marker::PhantomData<T> }

impl<T: std::io::Read + std::io::Seek> Reader<T> {
    pub uninterp spec fn table(&self) -> int;
    pub uninterp spec fn num_rows(&self) -> nat;
    pub uninterp spec fn row_pos(&self) -> nat;

    /// `seek(index)`: source.seek(Start(offset_to_first_record + index * size_of_record))
    #[verifier::external_body]
    pub fn seek(&mut self, index: usize) -> (r: Result<(), Error>)
        ensures
            final(self).table() == old(self).table(), final(self).num_rows() == old(self).num_rows(),
            r is Ok ==> final(self).row_pos() == index,
            r is Err ==> final(self).row_pos() == old(self).row_pos(),
    { unimplemented!() }

    /// `iter_records_as`: a RecordIterator borrowing the reader, its own counter starting at 0; nothing is read or moved
    #[verifier::external_body]
    pub fn iter_records_as<R: ReadableRecord>(&mut self) -> (r: RecordIterator<'_, T, R>)
        ensures
            *r.reader == *old(self), r.current_record == 0, *final(self) == *final(r.reader),
    { unimplemented!() }
}

/// stand-in for dbase::RecordIterator<'a, T, R> (fields as in dbase, minus the scratch buffers)
#[verifier::reject_recursive_types(T)]
#[verifier::reject_recursive_types(R)]
pub struct RecordIterator<'a, T: std::io::Read + std::io::Seek, R: ReadableRecord> {
    pub reader: &'a mut Reader<T>,
    pub record_type: core::marker::PhantomData<R>,
    pub current_record: u32,
}

impl<'a, T: std::io::Read + std::io::Seek, R: ReadableRecord> RecordIterator<'a, T, R> {
    /// `next`: None once `current_record >= num_records` or when the source is exhausted (`.ok()?` on the reads);
    /// otherwise the row under the source is decoded (Ok or Err), source and counter advance by one row
    #[verifier::external_body]
    pub fn next(&mut self) -> (r: Option<Result<R, Error>>)
        ensures
            *final(final(self).reader) == *final(old(self).reader),
            (*final(self).reader).table() == (*old(self).reader).table(), (*final(self).reader).num_rows() == (*old(self).reader).num_rows(),
            (old(self).current_record >= (*old(self).reader).num_rows() || (*old(self).reader).row_pos() >= (*old(self).reader).num_rows()) ==>
                r is None && (*final(self).reader).row_pos() == (*old(self).reader).row_pos() && final(self).current_record == old(self).current_record,
            (old(self).current_record < (*old(self).reader).num_rows() && (*old(self).reader).row_pos() < (*old(self).reader).num_rows()) ==>
                r is Some && (*final(self).reader).row_pos() == (*old(self).reader).row_pos() + 1 && final(self).current_record == old(self).current_record + 1
                && (r->Some_0 is Ok ==> r->Some_0->Ok_0 == row_of::<R>((*old(self).reader).table(), (*old(self).reader).row_pos() as int)),
    { unimplemented!() }
}

} // mod dbase
