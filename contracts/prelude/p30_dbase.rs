// ============================================================================================
// A8  dbase stand-in (TRUSTED contracts read off dbase-0.6.1; only what shapefile-rs calls)
// ============================================================================================
pub mod dbase {
use vstd::prelude::*;

#[verifier::external_body]
#[derive(Debug)]
pub struct Error { _p: () }

} // mod dbase
