// ============================================================================================
// A3  float theory (TRUSTED axioms; each is proved on IEEE-754 semantics by Kani harness k_float_*)
//     Verus identifies an f64 with its 64-bit pattern; `==` in spec code is bit identity.
// ============================================================================================
pub mod vp_float {
use vstd::prelude::*;

use crate::vp_bytes::{fbits, f64_of};

/// IEEE order on bit patterns (int-quantified so that the axioms fire on struct-field terms)
pub uninterp spec fn lt_b(a: int, b: int) -> bool;
pub uninterp spec fn eq_b(a: int, b: int) -> bool;
pub uninterp spec fn nan_b(a: int) -> bool;
/// IEEE `a < b`, `a == b` (false whenever an operand is NaN; +0 == -0)
pub open spec fn flt(a: f64, b: f64) -> bool { lt_b(fbits(a), fbits(b)) }
pub open spec fn feq(a: f64, b: f64) -> bool { eq_b(fbits(a), fbits(b)) }
pub open spec fn is_nan(a: f64) -> bool { nan_b(fbits(a)) }
pub open spec fn fle(a: f64, b: f64) -> bool { flt(a, b) || feq(a, b) }

// link to the executable operators (vstd leaves the f64 comparison results uninterpreted)
pub broadcast axiom fn ax_lt(a: f64, b: f64, o: bool)
    ensures #[trigger] vstd::std_specs::cmp::lt_ensures::<f64>(a, b, o) <==> o == flt(a, b);
pub broadcast axiom fn ax_gt(a: f64, b: f64, o: bool)
    ensures #[trigger] vstd::std_specs::cmp::gt_ensures::<f64>(a, b, o) <==> o == flt(b, a);
pub broadcast axiom fn ax_le(a: f64, b: f64, o: bool)
    ensures #[trigger] vstd::std_specs::cmp::le_ensures::<f64>(a, b, o) <==> o == fle(a, b);
pub broadcast axiom fn ax_ge(a: f64, b: f64, o: bool)
    ensures #[trigger] vstd::std_specs::cmp::ge_ensures::<f64>(a, b, o) <==> o == fle(b, a);
pub broadcast axiom fn ax_eq(a: f64, b: f64, o: bool)
    ensures #[trigger] vstd::std_specs::cmp::eq_ensures::<f64>(a, b, o) <==> o == feq(a, b);
pub broadcast axiom fn ax_ne(a: f64, b: f64, o: bool)
    ensures #[trigger] vstd::std_specs::cmp::ne_ensures::<f64>(a, b, o) <==> o == !feq(a, b);

// order theory on bit patterns (Kani: k_float_order proves each on IEEE-754 semantics)
pub broadcast axiom fn ax_nan(a: int, b: int)
    requires nan_b(a) || nan_b(b)
    ensures !(#[trigger] lt_b(a, b)), !lt_b(b, a), !(#[trigger] eq_b(a, b)), !eq_b(b, a);
pub broadcast axiom fn ax_feq_refl(a: int)
    ensures !nan_b(a) ==> #[trigger] eq_b(a, a);
pub broadcast axiom fn ax_feq_sym(a: int, b: int)
    ensures #[trigger] eq_b(a, b) ==> eq_b(b, a);
pub broadcast axiom fn ax_total(a: int, b: int)
    ensures (!nan_b(a) && !nan_b(b)) ==> (#[trigger] lt_b(a, b) || eq_b(a, b) || lt_b(b, a));
pub broadcast axiom fn ax_asym(a: int, b: int)
    ensures #[trigger] lt_b(a, b) ==> !lt_b(b, a) && !eq_b(a, b);
pub broadcast axiom fn ax_lt_trans(a: int, b: int, c: int)
    ensures (#[trigger] lt_b(a, b) && #[trigger] lt_b(b, c)) ==> lt_b(a, c);
pub broadcast axiom fn ax_lt_eq_trans(a: int, b: int, c: int)
    ensures (#[trigger] lt_b(a, b) && #[trigger] eq_b(b, c)) ==> lt_b(a, c);
pub broadcast axiom fn ax_eq_lt_trans(a: int, b: int, c: int)
    ensures (#[trigger] eq_b(a, b) && #[trigger] lt_b(b, c)) ==> lt_b(a, c);
pub broadcast axiom fn ax_eq_trans(a: int, b: int, c: int)
    ensures (#[trigger] eq_b(a, b) && #[trigger] eq_b(b, c)) ==> eq_b(a, c);

/// the fold steps of the repository: `if a < b { a } else { b }`, `if a > b { a } else { b }`
pub open spec fn s_min(a: f64, b: f64) -> f64 { if flt(a, b) { a } else { b } }
pub open spec fn s_max(a: f64, b: f64) -> f64 { if flt(b, a) { a } else { b } }

/// `f64::max(a, b)` of std (IEEE maxNum): NaN operands are ignored
pub uninterp spec fn fmax_b(a: int, b: int) -> int;
pub open spec fn std_fmax_bits(a: f64, b: f64) -> int { fmax_b(fbits(a), fbits(b)) }
pub assume_specification[f64::max](a: f64, b: f64) -> (r: f64)
    ensures fbits(r) == std_fmax_bits(a, b);
// (Kani: k_float_fmax) for a non-NaN b:  max(a, b) is b when a is NaN or a < b, a when b < a,
// and one of the two when they compare equal
pub broadcast axiom fn ax_std_fmax(a: int, b: int)
    requires !nan_b(b)
    ensures
        (nan_b(a) || lt_b(a, b)) ==> #[trigger] fmax_b(a, b) == b,
        lt_b(b, a) ==> fmax_b(a, b) == a,
        eq_b(a, b) ==> (fmax_b(a, b) == a || fmax_b(a, b) == b);
/// IEEE-equal non-zero floats have the same bits
pub uninterp spec fn zero_b(a: int) -> bool;
pub broadcast axiom fn ax_eq_bits(a: int, b: int)
    ensures #[trigger] eq_b(a, b) ==> (a == b || (zero_b(a) && zero_b(b)));

// f64::MIN / f64::MAX (R1: the associated constants are rewritten to these stubs)
pub uninterp spec fn s_f64_min() -> f64;
pub uninterp spec fn s_f64_max() -> f64;
#[verifier::external_body]
pub fn c_f64_min() -> (r: f64) ensures r == s_f64_min() { f64::MIN }
#[verifier::external_body]
pub fn c_f64_max() -> (r: f64) ensures r == s_f64_max() { f64::MAX }
// f64::INFINITY / f64::NEG_INFINITY (R1)
pub uninterp spec fn s_f64_inf() -> f64;
pub uninterp spec fn s_f64_neg_inf() -> f64;
#[verifier::external_body]
pub fn c_f64_inf() -> (r: f64) ensures r == s_f64_inf() { f64::INFINITY }
#[verifier::external_body]
pub fn c_f64_neg_inf() -> (r: f64) ensures r == s_f64_neg_inf() { f64::NEG_INFINITY }
// (Kani: k_float_infinities) the infinities are not NaN and are the extreme elements of the order on non-NaN values:
// every other non-NaN value is strictly inside, and only the infinity itself compares equal to it
pub broadcast axiom fn ax_inf_not_nan()
    ensures !is_nan(s_f64_inf()), !is_nan(s_f64_neg_inf()), #[trigger] flt(s_f64_neg_inf(), s_f64_inf());
pub broadcast axiom fn ax_inf_extreme(a: int)
    ensures
        !nan_b(a) ==> (#[trigger] lt_b(a, fbits(s_f64_inf())) || a == fbits(s_f64_inf())),
        !nan_b(a) ==> (#[trigger] lt_b(fbits(s_f64_neg_inf()), a) || a == fbits(s_f64_neg_inf())),
        eq_b(a, fbits(s_f64_inf())) ==> a == fbits(s_f64_inf()),
        eq_b(a, fbits(s_f64_neg_inf())) ==> a == fbits(s_f64_neg_inf());
pub uninterp spec fn finite_b(a: int) -> bool;
pub open spec fn is_finite(a: f64) -> bool { finite_b(fbits(a)) }
// (Kani: k_float_minmax) finite values lie in [MIN, MAX]; MIN < MAX; neither is NaN
pub broadcast axiom fn ax_minmax()
    ensures !is_nan(s_f64_min()), !is_nan(s_f64_max()), #[trigger] flt(s_f64_min(), s_f64_max());
pub broadcast axiom fn ax_finite(a: int)
    ensures #[trigger] finite_b(a) ==> !nan_b(a) && (lt_b(fbits(s_f64_min()), a) || eq_b(fbits(s_f64_min()), a)) && (lt_b(a, fbits(s_f64_max())) || eq_b(a, fbits(s_f64_max())));

pub broadcast group g_float {
    ax_lt, ax_gt, ax_le, ax_ge, ax_eq, ax_ne, ax_nan, ax_feq_refl, ax_feq_sym, ax_eq_bits, ax_total, ax_asym,
    ax_lt_trans, ax_lt_eq_trans, ax_eq_lt_trans, ax_eq_trans, ax_std_fmax, ax_minmax, ax_finite, ax_inf_not_nan, ax_inf_extreme,
}

} // mod vp_float
