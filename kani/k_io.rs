//! K9 (C01, C03, C13 bounded): the shared array readers of the real crate (read_xy_in_vec_of, read_ms_into,
//! read_zs_into, read_parts) on bytes laid out by hand, symbolic doubles (all bit patterns), two elements.
//! BOUNDED stand-in (array length 2); independent of how the functions are factored internally.
use crate::record::io::*;
use crate::*;

fn put_f64(buf: &mut [u8], at: usize, v: u64) {
    let b = v.to_le_bytes();
    let mut i = 0;
    while i < 8 {
        buf[at + i] = b[i];
        i += 1;
    }
}
fn put_i32(buf: &mut [u8], at: usize, v: i32) {
    let b = v.to_le_bytes();
    let mut i = 0;
    while i < 4 {
        buf[at + i] = b[i];
        i += 1;
    }
}
/// the measure normalisation of C01: NaN and anything below NO_DATA read back as NO_DATA, everything else as stored
fn m_norm_ok(stored: u64, got: f64) -> bool {
    let s = f64::from_bits(stored);
    if s.is_nan() || s < NO_DATA {
        got.to_bits() == NO_DATA.to_bits()
    } else {
        got.to_bits() == stored || (s == NO_DATA && got == NO_DATA)
    }
}

#[kani::proof]
#[kani::unwind(10)]
fn k_io_read_zs_exact() {
    let v: [u64; 2] = kani::any();
    let mut buf = [0u8; 16];
    put_f64(&mut buf, 0, v[0]);
    put_f64(&mut buf, 8, v[1]);
    let mut pts = [PointZ::default(), PointZ::default()];
    let mut s: &[u8] = &buf[..];
    let r = read_zs_into(&mut s, &mut pts);
    assert!(r.is_ok() && s.is_empty());
    std::mem::forget(r);
    assert!(pts[0].z.to_bits() == v[0] && pts[1].z.to_bits() == v[1]);
    // a source one byte short is an error, never a value
    let mut pts2 = [PointZ::default(), PointZ::default()];
    let mut t: &[u8] = &buf[..15];
    let r2 = read_zs_into(&mut t, &mut pts2);
    assert!(r2.is_err());
    std::mem::forget(r2);
}

#[kani::proof]
#[kani::unwind(10)]
fn k_io_read_ms_normalised() {
    let v: [u64; 2] = kani::any();
    let mut buf = [0u8; 16];
    put_f64(&mut buf, 0, v[0]);
    put_f64(&mut buf, 8, v[1]);
    let mut pts = [PointZ::default(), PointZ::default()];
    let mut s: &[u8] = &buf[..];
    let r = read_ms_into(&mut s, &mut pts);
    assert!(r.is_ok() && s.is_empty());
    std::mem::forget(r);
    assert!(m_norm_ok(v[0], pts[0].m) && m_norm_ok(v[1], pts[1].m));
    let mut ptm = [PointM::default(), PointM::default()];
    let mut t: &[u8] = &buf[..15];
    let r2 = read_ms_into(&mut t, &mut ptm);
    assert!(r2.is_err());
    std::mem::forget(r2);
}

#[kani::proof]
#[kani::unwind(10)]
fn k_io_read_xys_and_parts() {
    let v: [u64; 4] = kani::any();
    let mut buf = [0u8; 32];
    let mut i = 0;
    while i < 4 {
        put_f64(&mut buf, 8 * i, v[i]);
        i += 1;
    }
    let mut s: &[u8] = &buf[..];
    let r = read_xy_in_vec_of::<PointM, _>(&mut s, 2);
    assert!(r.is_ok() && s.is_empty());
    let pts = r.unwrap();
    assert!(pts.len() == 2 && pts[0].x.to_bits() == v[0] && pts[0].y.to_bits() == v[1] && pts[1].x.to_bits() == v[2] && pts[1].y.to_bits() == v[3]);
    assert!(pts[0].m.to_bits() == NO_DATA.to_bits() && pts[1].m.to_bits() == NO_DATA.to_bits());
    // Z vertices start from a default whose measure is NO_DATA (what a record without the optional M block must report)
    let mut s2: &[u8] = &buf[..];
    let rz = read_xy_in_vec_of::<PointZ, _>(&mut s2, 2);
    assert!(rz.is_ok());
    let ptz = rz.unwrap();
    assert!(ptz.len() == 2 && ptz[1].x.to_bits() == v[2] && ptz[0].m.to_bits() == NO_DATA.to_bits() && ptz[1].m.to_bits() == NO_DATA.to_bits() && ptz[0].z == 0.0);
    let p: [i32; 2] = kani::any();
    let mut pb = [0u8; 8];
    put_i32(&mut pb, 0, p[0]);
    put_i32(&mut pb, 4, p[1]);
    let mut t: &[u8] = &pb[..];
    let q = read_parts(&mut t, 2);
    assert!(q.is_ok());
    let q = q.unwrap();
    assert!(q.len() == 2 && q[0] == p[0] && q[1] == p[1]);
}

/// a source that hands out at most 3 bytes per `read` call (C13 short-read clause)
struct Dribble<'a> {
    buf: &'a [u8],
    pos: usize,
}
impl std::io::Read for Dribble<'_> {
    fn read(&mut self, out: &mut [u8]) -> std::io::Result<usize> {
        let avail = self.buf.len() - self.pos;
        let mut n = if out.len() < avail { out.len() } else { avail };
        if n > 3 {
            n = 3;
        }
        let mut i = 0;
        while i < n {
            out[i] = self.buf[self.pos + i];
            i += 1;
        }
        self.pos += n;
        Ok(n)
    }
}

/// the XY array reader gives the same points from a source that returns 3 bytes per call, and an error (never
/// zero-filled vertices) when the data stops inside the array
#[kani::proof]
#[kani::unwind(14)]
fn k_io_read_xys_short_reads_and_truncation() {
    let v: [u64; 4] = kani::any();
    let mut buf = [0u8; 32];
    let mut i = 0;
    while i < 4 {
        put_f64(&mut buf, 8 * i, v[i]);
        i += 1;
    }
    let mut d = Dribble { buf: &buf[..], pos: 0 };
    let r = read_xy_in_vec_of::<Point, _>(&mut d, 2);
    assert!(r.is_ok());
    let pts = r.unwrap();
    assert!(pts.len() == 2 && pts[0].x.to_bits() == v[0] && pts[0].y.to_bits() == v[1] && pts[1].x.to_bits() == v[2] && pts[1].y.to_bits() == v[3]);
    let cut: usize = kani::any();
    kani::assume(cut < 32);
    let mut s: &[u8] = &buf[..cut];
    let r2 = read_xy_in_vec_of::<Point, _>(&mut s, 2);
    assert!(r2.is_err());
    std::mem::forget(r2);
}
