//! K20 (C20): geo-types / geo-traits conversions on the real crate built with both features.
//! Point-level clauses are loop-free over all bit patterns (complete); collection clauses are BOUNDED
//! (small concrete structures): the conversions are `into_iter().map(..).collect()` chains over external containers.
use crate::*;
use geo_traits::{CoordTrait, PointTrait};
use std::convert::TryFrom;

fn any_f64() -> f64 {
    f64::from_bits(kani::any())
}

/// Point / PointM / PointZ <-> geo_types::Point / Coord keep x, y bit-exactly; defaults NO_DATA / 0
#[kani::proof]
fn k20_points_to_geo() {
    let (x, y, z, m) = (any_f64(), any_f64(), any_f64(), any_f64());
    let g: geo_types::Point<f64> = Point::new(x, y).into();
    assert!(g.x().to_bits() == x.to_bits() && g.y().to_bits() == y.to_bits());
    let g: geo_types::Point<f64> = PointM::new(x, y, m).into();
    assert!(g.x().to_bits() == x.to_bits() && g.y().to_bits() == y.to_bits());
    let g: geo_types::Point<f64> = PointZ::new(x, y, z, m).into();
    assert!(g.x().to_bits() == x.to_bits() && g.y().to_bits() == y.to_bits());
    let c: geo_types::Coord<f64> = PointZ::new(x, y, z, m).into();
    assert!(c.x.to_bits() == x.to_bits() && c.y.to_bits() == y.to_bits());
    let gp = geo_types::Point::new(x, y);
    let p: Point = gp.into();
    assert!(p.x.to_bits() == x.to_bits() && p.y.to_bits() == y.to_bits());
    let p: PointM = gp.into();
    assert!(p.x.to_bits() == x.to_bits() && p.y.to_bits() == y.to_bits() && p.m.to_bits() == NO_DATA.to_bits());
    let p: PointZ = gp.into();
    assert!(p.x.to_bits() == x.to_bits() && p.y.to_bits() == y.to_bits() && p.z.to_bits() == 0.0f64.to_bits() && p.m.to_bits() == NO_DATA.to_bits());
    let p: PointZ = geo_types::Coord { x, y }.into();
    assert!(p.x.to_bits() == x.to_bits() && p.m.to_bits() == NO_DATA.to_bits());
    // back and forth is the identity on 2-D points
    let q: Point = geo_types::Point::<f64>::from(Point::new(x, y)).into();
    assert!(q.x.to_bits() == x.to_bits() && q.y.to_bits() == y.to_bits());
}

fn check_coord<C: CoordTrait<T = f64>>(c: &C, f: [f64; 4]) {
    let n = c.dim().size();
    assert!(n >= 2 && n <= 4);
    let mut i = 0;
    while i < n {
        let v = c.nth_or_panic(i); // an index below the reported count never panics ...
        if i < 2 {
            assert!(v.to_bits() == f[i].to_bits()); // ... and returns the matching field
        }
        i += 1;
    }
}

/// every reported dimension can be read back: all PointX values incl. no-data, below-threshold and NaN measures
#[kani::proof]
#[kani::unwind(6)]
fn k20_dims_readable() {
    let (x, y, z, m) = (any_f64(), any_f64(), any_f64(), any_f64());
    let p = Point::new(x, y);
    check_coord(&p, [x, y, 0.0, 0.0]);
    check_coord(&&p, [x, y, 0.0, 0.0]);
    let pm = PointM::new(x, y, m);
    check_coord(&pm, [x, y, m, 0.0]);
    check_coord(&&pm, [x, y, m, 0.0]);
    if CoordTrait::dim(&pm).size() == 3 {
        assert!(CoordTrait::nth_or_panic(&pm, 2).to_bits() == m.to_bits());
    }
    let pz = PointZ::new(x, y, z, m);
    check_coord(&pz, [x, y, z, m]);
    check_coord(&&pz, [x, y, z, m]);
    assert!(CoordTrait::nth_or_panic(&pz, 2).to_bits() == z.to_bits());
    if CoordTrait::dim(&pz).size() == 4 {
        assert!(CoordTrait::nth_or_panic(&pz, 3).to_bits() == m.to_bits());
        assert!(CoordTrait::nth_or_panic(&&pz, 3).to_bits() == m.to_bits());
    }
    // the point view reports the same dimensions as its coordinate
    assert!(PointTrait::dim(&pz).size() == CoordTrait::dim(&pz).size());
    assert!(PointTrait::dim(&pm).size() == CoordTrait::dim(&pm).size());
    kani::cover!(m.is_nan());
}

/// refusals: null shape, rect, triangle, geometry collection, strip / fan multipatch give Err (no panic)
#[kani::proof]
#[kani::unwind(6)]
fn k20_refusals() {
    assert!(geo_types::Geometry::<f64>::try_from(Shape::NullShape).is_err());
    let r = geo_types::Rect::new(geo_types::Coord { x: 0.0, y: 0.0 }, geo_types::Coord { x: 1.0, y: 1.0 });
    assert!(Shape::try_from(geo_types::Geometry::Rect(r)).is_err());
    let t = geo_types::Triangle::new(geo_types::Coord { x: 0.0, y: 0.0 }, geo_types::Coord { x: 1.0, y: 1.0 }, geo_types::Coord { x: 1.0, y: 0.0 });
    assert!(Shape::try_from(geo_types::Geometry::Triangle(t)).is_err());
    assert!(Shape::try_from(geo_types::Geometry::GeometryCollection(geo_types::GeometryCollection::<f64>::default())).is_err());
    let strip = Multipatch::new(Patch::TriangleStrip(vec![PointZ::new(0.0, 0.0, 0.0, NO_DATA)]));
    assert!(geo_types::MultiPolygon::<f64>::try_from(strip).is_err());
    let fan = Multipatch::new(Patch::TriangleFan(vec![PointZ::new(0.0, 0.0, 0.0, NO_DATA)]));
    assert!(geo_types::MultiPolygon::<f64>::try_from(fan).is_err());
}

// ---- collection conversions: BOUNDED (small concrete structures, a few symbolic coordinates) ----

fn c(x: f64, y: f64) -> geo_types::Coord<f64> {
    geo_types::Coord { x, y }
}

/// multipoint -> MultiPoint keeps order and count (2 points, symbolic coordinates)
#[kani::proof]
#[kani::unwind(4)]
fn k20_multipoint_to_geo() {
    let a = Point::new(f64::from_bits(kani::any()), 2.0);
    let b = Point::new(3.0, f64::from_bits(kani::any()));
    let mp = Multipoint::new(vec![a, b]);
    let g: geo_types::MultiPoint<f64> = mp.into();
    assert!(g.0.len() == 2);
    assert!(g.0[0].x().to_bits() == a.x.to_bits() && g.0[0].y() == 2.0 && g.0[1].x() == 3.0 && g.0[1].y().to_bits() == b.y.to_bits());
}

/// MultiPoint -> multipoint
#[kani::proof]
#[kani::unwind(4)]
fn k20_multipoint_from_geo() {
    let g = geo_types::MultiPoint::<f64>(vec![geo_types::Point::new(1.0, 2.0), geo_types::Point::new(3.0, 4.0)]);
    let mp: Multipoint = g.into();
    assert!(mp.points().len() == 2 && mp.points()[0].x == 1.0 && mp.points()[1].y == 4.0);
}

/// polyline with two parts -> MultiLineString: grouping and order kept
#[kani::proof]
#[kani::unwind(5)]
fn k20_polyline_to_geo() {
    let v: f64 = f64::from_bits(kani::any());
    let pl = Polyline::with_parts(vec![
        vec![Point::new(1.0, 2.0), Point::new(3.0, v)],
        vec![Point::new(5.0, 6.0), Point::new(7.0, 8.0), Point::new(9.0, 10.0)],
    ]);
    let ml: geo_types::MultiLineString<f64> = pl.into();
    assert!(ml.0.len() == 2 && ml.0[0].0.len() == 2 && ml.0[1].0.len() == 3);
    assert!(ml.0[1].0[2] == c(9.0, 10.0) && ml.0[0].0[0] == c(1.0, 2.0) && ml.0[0].0[1].y.to_bits() == v.to_bits());
}

/// MultiLineString -> polyline
#[kani::proof]
#[kani::unwind(5)]
fn k20_polyline_from_geo() {
    let ml = geo_types::MultiLineString::<f64>(vec![
        geo_types::LineString(vec![c(1.0, 2.0), c(3.0, 4.0)]),
        geo_types::LineString(vec![c(5.0, 6.0), c(7.0, 8.0), c(9.0, 10.0)]),
    ]);
    let pl: Polyline = ml.into();
    assert!(pl.parts().len() == 2 && pl.parts()[0].len() == 2 && pl.parts()[1].len() == 3);
    assert!(pl.parts()[1][2].x == 9.0 && pl.parts()[0][1].y == 4.0);
}

/// polygon [Outer A, Inner a, Outer B] -> MultiPolygon [(A,[a]), (B,[])]
#[kani::proof]
#[kani::unwind(6)]
fn k20_polygon_nesting_to_geo() {
    let a = vec![Point::new(0.0, 0.0), Point::new(0.0, 9.0), Point::new(9.0, 9.0), Point::new(0.0, 0.0)]; // clockwise
    let h = vec![Point::new(1.0, 2.0), Point::new(3.0, 4.0), Point::new(1.0, 5.0), Point::new(1.0, 2.0)]; // counter-clockwise
    let b = vec![Point::new(20.0, 20.0), Point::new(20.0, 29.0), Point::new(29.0, 29.0), Point::new(20.0, 20.0)];
    let poly = Polygon::with_rings(vec![PolygonRing::Outer(a), PolygonRing::Inner(h), PolygonRing::Outer(b)]);
    let mp: geo_types::MultiPolygon<f64> = poly.into();
    assert!(mp.0.len() == 2);
    assert!(mp.0[0].interiors().len() == 1 && mp.0[1].interiors().len() == 0);
    assert!(mp.0[0].exterior().0.len() == 4 && mp.0[0].exterior().0[1] == c(0.0, 9.0));
    assert!(mp.0[0].interiors()[0].0[1] == c(3.0, 4.0));
    assert!(mp.0[1].exterior().0[2] == c(29.0, 29.0));
}

/// geo Line and LineString -> polyline with one part
#[kani::proof]
#[kani::unwind(5)]
fn k20_line_to_polyline() {
    let l = geo_types::Line::new(c(1.0, 2.0), c(3.0, 4.0));
    let pl: Polyline = l.into();
    assert!(pl.parts().len() == 1 && pl.parts()[0].len() == 2 && pl.parts()[0][0].x == 1.0 && pl.parts()[0][1].y == 4.0);
    let ls = geo_types::LineString(vec![c(5.0, 6.0), c(7.0, 8.0), c(9.0, 10.0)]);
    let pl: Polyline = ls.into();
    assert!(pl.parts().len() == 1 && pl.parts()[0].len() == 3 && pl.parts()[0][2].x == 9.0);
}

/// ring-only multipatch [OuterRing A, InnerRing a, FirstRing B, Ring b] -> MultiPolygon [(A,[a]), (B,[b])]
#[kani::proof]
#[kani::unwind(6)]
fn k20_multipatch_rings_to_geo() {
    let z = |x: f64, y: f64| PointZ::new(x, y, 1.0, NO_DATA);
    let mp = Multipatch::with_parts(vec![
        Patch::OuterRing(vec![z(0.0, 0.0), z(0.0, 9.0), z(9.0, 9.0), z(0.0, 0.0)]),
        Patch::InnerRing(vec![z(1.0, 2.0), z(3.0, 4.0), z(1.0, 5.0), z(1.0, 2.0)]),
        Patch::FirstRing(vec![z(20.0, 20.0), z(20.0, 29.0), z(29.0, 29.0), z(20.0, 20.0)]),
        Patch::Ring(vec![z(21.0, 22.0), z(23.0, 24.0), z(21.0, 25.0), z(21.0, 22.0)]),
    ]);
    let r: Result<geo_types::MultiPolygon<f64>, _> = TryFrom::try_from(mp);
    assert!(r.is_ok());
    let g = r.unwrap();
    assert!(g.0.len() == 2 && g.0[0].interiors().len() == 1 && g.0[1].interiors().len() == 1);
    assert!(g.0[0].exterior().0[1] == c(0.0, 9.0) && g.0[0].interiors()[0].0[1] == c(3.0, 4.0));
    assert!(g.0[1].exterior().0[2] == c(29.0, 29.0) && g.0[1].interiors()[0].0[1] == c(23.0, 24.0));
}

/// measured / Z polylines keep their X/Y pairs
#[kani::proof]
#[kani::unwind(5)]
fn k20_polylinez_to_geo() {
    let pl = PolylineZ::with_parts(vec![vec![PointZ::new(1.0, 2.0, 7.0, 8.0), PointZ::new(3.0, 4.0, 9.0, NO_DATA)], vec![PointZ::new(5.0, 6.0, 1.0, 2.0), PointZ::new(7.0, 8.0, 3.0, 4.0)]]);
    let ml: geo_types::MultiLineString<f64> = pl.into();
    assert!(ml.0.len() == 2 && ml.0[0].0.len() == 2 && ml.0[1].0.len() == 2 && ml.0[0].0[1] == c(3.0, 4.0) && ml.0[1].0[0] == c(5.0, 6.0));
}

/// geo Polygon (exterior + one hole) -> polygon rings [Outer, Inner]
#[kani::proof]
#[kani::unwind(6)]
fn k20_polygon_from_geo_single() {
    let a = geo_types::LineString(vec![c(0.0, 0.0), c(0.0, 9.0), c(9.0, 9.0), c(0.0, 0.0)]);
    let h = geo_types::LineString(vec![c(1.0, 2.0), c(3.0, 4.0), c(1.0, 5.0), c(1.0, 2.0)]);
    let poly: Polygon = geo_types::Polygon::new(a, vec![h]).into();
    assert!(poly.rings().len() == 2);
    assert!(matches!(poly.rings()[0], PolygonRing::Outer(_)) && matches!(poly.rings()[1], PolygonRing::Inner(_)));
    assert!(poly.rings()[0].points().len() == 4 && poly.rings()[1].points().len() == 4);
    assert!(poly.rings()[0].points()[1].y == 9.0 && poly.rings()[1].points()[1].x == 3.0);
}

/// polygon [Outer A, Outer B, Inner b] -> MultiPolygon [(A,[]), (B,[b])]: a hole belongs to the outer ring before it
#[kani::proof]
#[kani::unwind(6)]
fn k20_polygon_hole_after_second_outer() {
    let a = vec![Point::new(0.0, 0.0), Point::new(0.0, 9.0), Point::new(9.0, 9.0), Point::new(0.0, 0.0)]; // clockwise
    let b = vec![Point::new(20.0, 20.0), Point::new(20.0, 29.0), Point::new(29.0, 29.0), Point::new(20.0, 20.0)];
    let h = vec![Point::new(21.0, 22.0), Point::new(23.0, 24.0), Point::new(21.0, 25.0), Point::new(21.0, 22.0)]; // counter-clockwise
    let poly = Polygon::with_rings(vec![PolygonRing::Outer(a), PolygonRing::Outer(b), PolygonRing::Inner(h)]);
    let mp: geo_types::MultiPolygon<f64> = poly.into();
    assert!(mp.0.len() == 2);
    assert!(mp.0[0].interiors().len() == 0 && mp.0[1].interiors().len() == 1);
    assert!(mp.0[1].interiors()[0].0[1] == c(23.0, 24.0) && mp.0[1].exterior().0[1] == c(20.0, 29.0));
}
