//! K20 (C20): geo-types / geo-traits conversions on the real crate built with both features.
//! Point-level clauses are loop-free over all bit patterns (complete); collection clauses are BOUNDED
//! (small concrete structures): the conversions are `into_iter().map(..).collect()` chains over external containers.
use crate::*;
use geo_traits::{CoordTrait, PointTrait};
use std::convert::TryFrom;

fn any_f64() -> f64 {
    f64::from_bits(kani::any())
}

/// Point / PointM / PointZ <-> geo_types::Point / Coord keep x, y bit-exactly; defaults NO_DATA / 0
#[kani::proof]
fn k20_points_to_geo() {
    let (x, y, z, m) = (any_f64(), any_f64(), any_f64(), any_f64());
    let g: geo_types::Point<f64> = Point::new(x, y).into();
    assert!(g.x().to_bits() == x.to_bits() && g.y().to_bits() == y.to_bits());
    let g: geo_types::Point<f64> = PointM::new(x, y, m).into();
    assert!(g.x().to_bits() == x.to_bits() && g.y().to_bits() == y.to_bits());
    let g: geo_types::Point<f64> = PointZ::new(x, y, z, m).into();
    assert!(g.x().to_bits() == x.to_bits() && g.y().to_bits() == y.to_bits());
    let c: geo_types::Coord<f64> = PointZ::new(x, y, z, m).into();
    assert!(c.x.to_bits() == x.to_bits() && c.y.to_bits() == y.to_bits());
    let gp = geo_types::Point::new(x, y);
    let p: Point = gp.into();
    assert!(p.x.to_bits() == x.to_bits() && p.y.to_bits() == y.to_bits());
    let p: PointM = gp.into();
    assert!(p.x.to_bits() == x.to_bits() && p.y.to_bits() == y.to_bits() && p.m.to_bits() == NO_DATA.to_bits());
    let p: PointZ = gp.into();
    assert!(p.x.to_bits() == x.to_bits() && p.y.to_bits() == y.to_bits() && p.z.to_bits() == 0.0f64.to_bits() && p.m.to_bits() == NO_DATA.to_bits());
    let p: PointZ = geo_types::Coord { x, y }.into();
    assert!(p.x.to_bits() == x.to_bits() && p.m.to_bits() == NO_DATA.to_bits());
    // back and forth is the identity on 2-D points
    let q: Point = geo_types::Point::<f64>::from(Point::new(x, y)).into();
    assert!(q.x.to_bits() == x.to_bits() && q.y.to_bits() == y.to_bits());
}

fn check_coord<C: CoordTrait<T = f64>>(c: &C, f: [f64; 4]) {
    let n = c.dim().size();
    assert!(n >= 2 && n <= 4);
    let mut i = 0;
    while i < n {
        let v = c.nth_or_panic(i); // an index below the reported count never panics ...
        if i < 2 {
            assert!(v.to_bits() == f[i].to_bits()); // ... and returns the matching field
        }
        i += 1;
    }
}

/// every reported dimension can be read back: all PointX values incl. no-data, below-threshold and NaN measures
#[kani::proof]
#[kani::unwind(6)]
fn k20_dims_readable() {
    let (x, y, z, m) = (any_f64(), any_f64(), any_f64(), any_f64());
    let p = Point::new(x, y);
    check_coord(&p, [x, y, 0.0, 0.0]);
    check_coord(&&p, [x, y, 0.0, 0.0]);
    let pm = PointM::new(x, y, m);
    check_coord(&pm, [x, y, m, 0.0]);
    check_coord(&&pm, [x, y, m, 0.0]);
    if CoordTrait::dim(&pm).size() == 3 {
        assert!(CoordTrait::nth_or_panic(&pm, 2).to_bits() == m.to_bits());
    }
    let pz = PointZ::new(x, y, z, m);
    check_coord(&pz, [x, y, z, m]);
    check_coord(&&pz, [x, y, z, m]);
    assert!(CoordTrait::nth_or_panic(&pz, 2).to_bits() == z.to_bits());
    if CoordTrait::dim(&pz).size() == 4 {
        assert!(CoordTrait::nth_or_panic(&pz, 3).to_bits() == m.to_bits());
        assert!(CoordTrait::nth_or_panic(&&pz, 3).to_bits() == m.to_bits());
    }
    // the point view reports the same dimensions as its coordinate
    assert!(PointTrait::dim(&pz).size() == CoordTrait::dim(&pz).size());
    assert!(PointTrait::dim(&pm).size() == CoordTrait::dim(&pm).size());
    kani::cover!(m.is_nan());
}

/// refusals: null shape, rect, triangle, geometry collection, strip / fan multipatch give Err (no panic)
#[kani::proof]
#[kani::unwind(6)]
fn k20_refusals() {
    assert!(geo_types::Geometry::<f64>::try_from(Shape::NullShape).is_err());
    let r = geo_types::Rect::new(geo_types::Coord { x: 0.0, y: 0.0 }, geo_types::Coord { x: 1.0, y: 1.0 });
    assert!(Shape::try_from(geo_types::Geometry::Rect(r)).is_err());
    let t = geo_types::Triangle::new(geo_types::Coord { x: 0.0, y: 0.0 }, geo_types::Coord { x: 1.0, y: 1.0 }, geo_types::Coord { x: 1.0, y: 0.0 });
    assert!(Shape::try_from(geo_types::Geometry::Triangle(t)).is_err());
    assert!(Shape::try_from(geo_types::Geometry::GeometryCollection(geo_types::GeometryCollection::<f64>::default())).is_err());
    let strip = Multipatch::new(Patch::TriangleStrip(vec![PointZ::new(0.0, 0.0, 0.0, NO_DATA)]));
    assert!(geo_types::MultiPolygon::<f64>::try_from(strip).is_err());
    let fan = Multipatch::new(Patch::TriangleFan(vec![PointZ::new(0.0, 0.0, 0.0, NO_DATA)]));
    assert!(geo_types::MultiPolygon::<f64>::try_from(fan).is_err());
}
