//! K9 (C12 short-write clause, bounded): a destination that accepts at most `k` bytes per `write` call
//! receives byte-identical output (the library must only use write_all-based helpers).
use crate::record::WritableShape;
use crate::*;
use std::io::Write;

fn same_words(a: &[u8], b: &[u8], words: usize) {
    let mut i = 0;
    while i < words {
        let p = 8 * i;
        let x = u64::from_le_bytes([a[p], a[p + 1], a[p + 2], a[p + 3], a[p + 4], a[p + 5], a[p + 6], a[p + 7]]);
        let y = u64::from_le_bytes([b[p], b[p + 1], b[p + 2], b[p + 3], b[p + 4], b[p + 5], b[p + 6], b[p + 7]]);
        assert!(x == y);
        i += 1;
    }
}

struct Chunky<'a> {
    buf: &'a mut [u8],
    pos: usize,
    k: usize,
}
impl Write for Chunky<'_> {
    fn write(&mut self, data: &[u8]) -> std::io::Result<usize> {
        let n = if data.len() < self.k { data.len() } else { self.k };
        let mut i = 0;
        while i < n {
            self.buf[self.pos + i] = data[i];
            i += 1;
        }
        self.pos += n;
        Ok(n)
    }
    fn flush(&mut self) -> std::io::Result<()> {
        Ok(())
    }
}

/// Multipatch with one patch, 3 bytes accepted per call: same bytes as an all-at-once destination
#[kani::proof]
#[kani::unwind(22)]
fn k_chunky_multipatch() {
    let shape = Multipatch::new(Patch::TriangleFan(vec![PointZ::new(1.0, 1.5, 101.0, 201.0)]));
    let n = shape.size_in_bytes();
    assert!(n == 40 + 8 + 16 + 16 + 8 + 16 + 8);
    let mut whole = [0u8; 112];
    {
        let mut d: &mut [u8] = &mut whole[..];
        assert!(shape.write_to(&mut d).is_ok());
    }
    let k: usize = 3;
    let mut chunked = [0u8; 112];
    let mut c = Chunky { buf: &mut chunked[..], pos: 0, k };
    assert!(shape.write_to(&mut c).is_ok());
    assert!(c.pos == n);
    same_words(&chunked, &whole, 14);
}

/// PolylineM with two parts, chunk size 5
#[kani::proof]
#[kani::unwind(22)]
fn k_chunky_polylinem() {
    let shape = PolylineM::with_parts(vec![
        vec![PointM::new(1.0, 2.0, 3.0), PointM::new(4.0, 5.0, 6.0)],
        vec![PointM::new(7.0, 8.0, 9.0), PointM::new(10.0, 11.0, 12.0)],
    ]);
    let n = shape.size_in_bytes();
    let mut whole = [0u8; 160];
    {
        let mut d: &mut [u8] = &mut whole[..];
        assert!(shape.write_to(&mut d).is_ok());
    }
    let mut chunked = [0u8; 160];
    let mut c = Chunky { buf: &mut chunked[..], pos: 0, k: 5 };
    assert!(shape.write_to(&mut c).is_ok());
    assert!(c.pos == n);
    same_words(&chunked, &whole, 20);
}

/// the 100-byte file header through a destination that accepts 3 bytes per call: byte-identical
#[kani::proof]
#[kani::unwind(40)]
fn k_chunky_header() {
    let mut h = header::Header::default();
    h.file_length = kani::any();
    h.shape_type = ShapeType::PolygonZ;
    h.bbox.min.x = f64::from_bits(kani::any());
    h.bbox.max.m = f64::from_bits(kani::any());
    let mut whole = [0u8; 104];
    {
        let mut d: &mut [u8] = &mut whole[..];
        assert!(h.write_to(&mut d).is_ok());
        assert!(d.len() == 4);
    }
    let mut chunked = [0u8; 104];
    let mut c = Chunky { buf: &mut chunked[..], pos: 0, k: 3 };
    assert!(h.write_to(&mut c).is_ok());
    assert!(c.pos == 100);
    same_words(&chunked, &whole, 13);
}

/// an index entry through a destination that accepts 3 bytes per call: the same 8 big-endian bytes
#[kani::proof]
#[kani::unwind(12)]
fn k_chunky_index_entry() {
    let e = crate::reader::ShapeIndex { offset: kani::any(), record_size: kani::any() };
    let mut chunked = [0u8; 16];
    let mut c = Chunky { buf: &mut chunked[..], pos: 0, k: 3 };
    assert!(e.write_to(&mut c).is_ok());
    assert!(c.pos == 8);
    assert!(chunked[0..4] == e.offset.to_be_bytes() && chunked[4..8] == e.record_size.to_be_bytes() && chunked[8] == 0);
}
