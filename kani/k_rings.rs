//! K8 (C16, C05 bounded): polygon constructors on the real crate.  BOUNDED stand-in (concrete rings):
//! `with_rings` uses `iter_mut().for_each(..)` and a floating-point shoelace sum, both outside Verus.
use crate::*;

/// twice the signed shoelace area as the library computes it, on small integers (exact in f64)
fn area2(p: &[Point]) -> i64 {
    let mut s = 0i64;
    let mut i = 0;
    while i + 1 < p.len() {
        s += ((p[i + 1].x as i64) - (p[i].x as i64)) * ((p[i + 1].y as i64) + (p[i].y as i64));
        i += 1;
    }
    s
}
fn same(a: Point, b: Point) -> bool {
    a.x.to_bits() == b.x.to_bits() && a.y.to_bits() == b.y.to_bits()
}

/// rings given open and in the wrong orientation: closed by one copy of the first vertex, then reversed as a
/// whole; outer rings end clockwise (area >= 0 in the library's convention), inner rings counter-clockwise
#[kani::proof]
#[kani::unwind(8)]
fn k_rings_close_and_orient() {
    let o = [Point::new(0.0, 0.0), Point::new(8.0, 0.0), Point::new(8.0, 9.0)]; // counter-clockwise, open
    let h = [Point::new(2.0, 1.0), Point::new(3.0, 4.0), Point::new(5.0, 2.0)]; // clockwise, open
    let poly = Polygon::with_rings(vec![PolygonRing::Outer(o.to_vec()), PolygonRing::Inner(h.to_vec())]);
    let r0 = poly.rings()[0].points();
    let r1 = poly.rings()[1].points();
    assert!(matches!(poly.rings()[0], PolygonRing::Outer(_)) && matches!(poly.rings()[1], PolygonRing::Inner(_)));
    assert!(r0.len() == 4 && r1.len() == 4);
    assert!(same(r0[0], r0[3]) && same(r1[0], r1[3]));
    assert!(area2(r0) >= 0 && area2(r1) <= 0);
    // vertex preservation: closed input [a,b,c,a], reversed as a whole -> [a,c,b,a]
    assert!(same(r0[0], o[0]) && same(r0[1], o[2]) && same(r0[2], o[1]));
    assert!(same(r1[0], h[0]) && same(r1[1], h[2]) && same(r1[2], h[1]));
    // rebuilding from its own rings changes nothing
    let again = Polygon::with_rings(vec![PolygonRing::Outer(r0.to_vec()), PolygonRing::Inner(r1.to_vec())]);
    assert!(again == poly);
}

/// already closed and correctly oriented rings are kept verbatim; `new` agrees with `with_rings`
#[kani::proof]
#[kani::unwind(8)]
fn k_rings_kept() {
    let o = vec![Point::new(0.0, 0.0), Point::new(8.0, 9.0), Point::new(8.0, 0.0), Point::new(0.0, 0.0)]; // clockwise, closed
    let poly = Polygon::new(PolygonRing::Outer(o.clone()));
    let r0 = poly.rings()[0].points();
    assert!(r0.len() == 4);
    let mut i = 0;
    while i < 4 {
        assert!(same(r0[i], o[i]));
        i += 1;
    }
    // degenerate two-vertex open ring is still closed
    let d = Polygon::with_rings(vec![PolygonRing::Inner(vec![Point::new(1.0, 1.0), Point::new(2.0, 2.0)])]);
    let r = d.rings()[0].points();
    assert!(r.len() == 3 && same(r[0], r[2]));
}

/// C05: the box of a PolygonZ covers every ring, including an inner ring holding the extreme Z / M
#[kani::proof]
#[kani::unwind(8)]
fn k_rings_bbox_all_rings() {
    let poly = PolygonZ::with_rings(vec![
        PolygonRing::Outer(vec![PointZ::new(0.0, 0.0, 10.0, 20.0), PointZ::new(8.0, 9.0, 11.0, 21.0), PointZ::new(8.0, 0.0, 12.0, 22.0)]),
        PolygonRing::Inner(vec![PointZ::new(2.0, 1.0, -75.5, 5.0), PointZ::new(5.0, 2.0, 40.0, 99.0), PointZ::new(3.0, 4.0, 11.0, 21.0)]),
    ]);
    let b = poly.bbox();
    assert!(b.min.z == -75.5 && b.max.z == 40.0 && b.min.m == 5.0 && b.max.m == 99.0);
    assert!(b.min.x == 0.0 && b.max.x == 8.0 && b.min.y == 0.0 && b.max.y == 9.0);
}

/// C16 (orientation decides the role): on closed triangles whose coordinates are small integers times a power of
/// two (so that the library's floating-point shoelace sum is exact, at unit scale and at a scale where the area is
/// far below f64::EPSILON) the ring type is `InnerRing` exactly when the signed area is negative.  BOUNDED domain.
#[kani::proof]
#[kani::unwind(8)]
fn k_rings_orientation_sign() {
    let tiny = f64::from_bits(0x3d70_0000_0000_0000); // 2^-40
    let s: f64 = if kani::any() { 1.0 } else { tiny };
    let c: [i8; 6] = kani::any();
    kani::assume(c.iter().all(|v| *v >= -8 && *v <= 8));
    let p = |i: usize| Point::new(c[2 * i] as f64 * s, c[2 * i + 1] as f64 * s);
    let ring = [p(0), p(1), p(2), p(0)];
    let mut a2 = 0i64;
    let mut i = 0;
    while i < 3 {
        let (x0, y0) = (c[2 * (i % 3)] as i64, c[2 * (i % 3) + 1] as i64);
        let (x1, y1) = (c[2 * ((i + 1) % 3)] as i64, c[2 * ((i + 1) % 3) + 1] as i64);
        a2 += (x1 - x0) * (y1 + y0);
        i += 1;
    }
    let t = crate::record::ring_type_from_points_ordering(&ring);
    assert!((t == crate::record::RingType::InnerRing) == (a2 < 0));
    kani::cover!(a2 < 0 && s != 1.0);
    kani::cover!(a2 > 0);
}

/// quick companion of `k_rings_orientation_sign`: four concrete closed triangles, at unit scale and at scale 2^-40
/// (signed area about 1e-23, far below f64::EPSILON): counter-clockwise is an inner ring, clockwise an outer ring
#[kani::proof]
#[kani::unwind(6)]
fn k_rings_orientation_concrete() {
    let tiny = f64::from_bits(0x3d70_0000_0000_0000); // 2^-40
    for s in [1.0f64, tiny] {
        let ccw = [Point::new(0.0, 0.0), Point::new(4.0 * s, 0.0), Point::new(4.0 * s, 3.0 * s), Point::new(0.0, 0.0)];
        let cw = [Point::new(0.0, 0.0), Point::new(4.0 * s, 3.0 * s), Point::new(4.0 * s, 0.0), Point::new(0.0, 0.0)];
        assert!(crate::record::ring_type_from_points_ordering(&ccw) == crate::record::RingType::InnerRing);
        assert!(crate::record::ring_type_from_points_ordering(&cw) == crate::record::RingType::OuterRing);
    }
}

/// C16: every ring kind of a multipatch (outer, inner, first, ring) is closed by the constructor when given open;
/// triangle strips and fans are left as given
#[kani::proof]
#[kani::unwind(8)]
fn k_rings_multipatch_closes_every_ring_kind() {
    let z = |x: f64, y: f64| PointZ::new(x, y, 1.0, NO_DATA);
    let open = || vec![z(0.0, 0.0), z(0.0, 4.0), z(4.0, 4.0)];
    let mp = Multipatch::with_parts(vec![
        Patch::OuterRing(open()),
        Patch::InnerRing(open()),
        Patch::FirstRing(open()),
        Patch::Ring(open()),
        Patch::TriangleStrip(open()),
        Patch::TriangleFan(open()),
    ]);
    let p = mp.patches();
    assert!(p.len() == 6);
    let mut i = 0;
    while i < 4 {
        let pts = p[i].points();
        assert!(pts.len() == 4 && pts[3].x == pts[0].x && pts[3].y == pts[0].y && pts[1].y == 4.0);
        i += 1;
    }
    assert!(matches!(p[0], Patch::OuterRing(_)) && matches!(p[1], Patch::InnerRing(_)) && matches!(p[2], Patch::FirstRing(_)) && matches!(p[3], Patch::Ring(_)));
    assert!(p[4].points().len() == 3 && p[5].points().len() == 3);
}

/// C16: a ring whose last vertex is a hair away from the first (not equal) is open: it gets its closing copy and
/// keeps every vertex; the caller's ring order is kept (a hole listed before an outer ring stays first)
#[kani::proof]
#[kani::unwind(8)]
fn k_rings_near_closed_and_ring_order() {
    let tiny = f64::from_bits(0x3c80_0000_0000_0000); // 2^-55, far below f64::EPSILON
    let o = vec![Point::new(0.0, 0.0), Point::new(0.0, 9.0), Point::new(9.0, 9.0), Point::new(tiny, 0.0)]; // clockwise, open by a hair
    let h = vec![Point::new(1.0, 2.0), Point::new(3.0, 4.0), Point::new(1.0, 5.0), Point::new(1.0, 2.0)]; // counter-clockwise, closed
    let poly = Polygon::with_rings(vec![PolygonRing::Inner(h), PolygonRing::Outer(o)]);
    assert!(poly.rings().len() == 2);
    assert!(matches!(poly.rings()[0], PolygonRing::Inner(_)) && matches!(poly.rings()[1], PolygonRing::Outer(_)));
    let r1 = poly.rings()[1].points();
    assert!(r1.len() == 5 && r1[3].x.to_bits() == tiny.to_bits() && r1[4].x == 0.0 && r1[4].y == 0.0 && r1[1].y == 9.0);
    assert!(poly.rings()[0].points().len() == 4 && poly.rings()[0].points()[1].x == 3.0);
}

/// C05: the box of a multipatch covers every patch, whatever its kind (an inner ring holding the extreme Z and M)
#[kani::proof]
#[kani::unwind(8)]
fn k_rings_multipatch_box_all_patches() {
    let o = vec![PointZ::new(0.0, 0.0, 1.0, 1.0), PointZ::new(0.0, 9.0, 1.0, 1.0), PointZ::new(9.0, 9.0, 1.0, 1.0), PointZ::new(0.0, 0.0, 1.0, 1.0)];
    let h = vec![PointZ::new(1.0, 2.0, -4.0, 90.0), PointZ::new(3.0, 4.0, 25.0, -7.0), PointZ::new(1.0, 5.0, 2.0, 2.0), PointZ::new(1.0, 2.0, -4.0, 90.0)];
    let s = vec![PointZ::new(-3.0, 2.0, 1.0, 1.0), PointZ::new(3.0, 12.0, 1.0, 1.0), PointZ::new(1.0, 5.0, 1.0, 1.0)];
    let mp = Multipatch::with_parts(vec![Patch::OuterRing(o), Patch::InnerRing(h), Patch::TriangleStrip(s)]);
    let b = mp.bbox();
    assert!(b.min.x == -3.0 && b.max.x == 9.0 && b.min.y == 0.0 && b.max.y == 12.0);
    assert!(b.min.z == -4.0 && b.max.z == 25.0 && b.min.m == -7.0 && b.max.m == 90.0);
}

/// C05: an infinite measure on a vertex that is not the first one is the extreme of the M range
#[kani::proof]
#[kani::unwind(6)]
fn k_rings_m_range_with_infinite_measure() {
    let mp = MultipointM::new(vec![PointM::new(1.0, 1.0, 1.0), PointM::new(2.0, 2.0, f64::INFINITY), PointM::new(3.0, 3.0, 2.0)]);
    assert!(mp.bbox().min.m == 1.0 && mp.bbox().max.m == f64::INFINITY);
    let mz = MultipointZ::new(vec![PointZ::new(1.0, 1.0, 0.0, 5.0), PointZ::new(2.0, 2.0, 0.0, f64::NEG_INFINITY + 0.0)]);
    // -inf is below the no-data threshold: it is still the minimum of the stored values
    assert!(mz.bbox().max.m == 5.0 && mz.bbox().min.m == f64::NEG_INFINITY);
}

/// C07 (bounded in the ring length: 0, 1 and 2 points; every finite coordinate of magnitude <= 1e100, so that CBMC's
/// "arithmetic produced NaN" checks, which are not Rust panics, stay silent): the orientation
/// helper, assumed in Verus (A4) and reached from every Polygon* record read from a file (`PolygonRing::from`),
/// returns a ring type for an empty, a one-point and a two-point ring -- it never panics or indexes out of bounds
#[kani::proof]
#[kani::unwind(4)]
fn k07_ring_type_total_on_short_rings() {
    let c: [f64; 4] = kani::any();
    kani::assume(c[0].abs() <= 1e100 && c[1].abs() <= 1e100 && c[2].abs() <= 1e100 && c[3].abs() <= 1e100);
    let pts = [Point::new(c[0], c[1]), Point::new(c[2], c[3])];
    let n: usize = kani::any();
    kani::assume(n <= 2);
    let t = crate::record::ring_type_from_points_ordering(&pts[..n]);
    assert!(t == crate::record::RingType::InnerRing || t == crate::record::RingType::OuterRing);
    if n < 2 {
        // no edge: the signed area is 0, which the whitepaper-side convention of the crate reports as an outer ring
        assert!(t == crate::record::RingType::OuterRing);
    }
    kani::cover!(n == 0);
    kani::cover!(n == 2 && t == crate::record::RingType::InnerRing);
}

/// C16 (bounded: one ring of 4 vertices; Z and M of the last vertex symbolic): a ring of a PolygonZ, a PolygonM or a
/// multipatch is closed when its first and last vertices are EQUAL -- all coordinates, Z and M included. A ring whose
/// ends coincide in plan but differ in Z or M (a ramp) is open and must get a copy of its first vertex appended.
#[kani::proof]
#[kani::unwind(8)]
fn k_rings_closed_means_equal_in_every_coordinate() {
    let z: f64 = if kani::any() { 1.0 } else { 7.0 };
    let m: f64 = if kani::any() { 2.0 } else { 9.0 };
    let first = PointZ::new(0.0, 0.0, 1.0, 2.0);
    let ring = vec![first, PointZ::new(8.0, 9.0, 1.0, 2.0), PointZ::new(8.0, 0.0, 1.0, 2.0), PointZ::new(0.0, 0.0, z, m)];
    let already_closed = z == 1.0 && m == 2.0;
    let poly = PolygonZ::with_rings(vec![PolygonRing::Outer(ring.clone())]);
    let r = poly.rings()[0].points();
    assert!(r.len() == if already_closed { 4 } else { 5 });
    assert!(r[0] == r[r.len() - 1]);
    let mp = Multipatch::with_parts(vec![Patch::Ring(ring.clone())]);
    let q = mp.patches()[0].points();
    assert!(q.len() == if already_closed { 4 } else { 5 });
    assert!(q[0] == q[q.len() - 1]);
    let pm = PolygonM::with_rings(vec![PolygonRing::Outer(vec![
        PointM::new(0.0, 0.0, 2.0), PointM::new(8.0, 9.0, 2.0), PointM::new(8.0, 0.0, 2.0), PointM::new(0.0, 0.0, m),
    ])]);
    let s = pm.rings()[0].points();
    assert!(s.len() == if m == 2.0 { 4 } else { 5 });
    assert!(s[0] == s[s.len() - 1]);
    kani::cover!(already_closed);
    kani::cover!(!already_closed);
}

/// C16 (bounded, cheap companion of the harness above: no orientation arithmetic): a multipatch ring whose last vertex
/// equals the first in X and Y but not in Z is open, and the constructor appends a copy of the first vertex
#[kani::proof]
#[kani::unwind(8)]
fn k_rings_multipatch_ramp_is_closed() {
    let first = PointZ::new(0.0, 0.0, 1.0, 2.0);
    let ring = vec![first, PointZ::new(8.0, 9.0, 1.0, 2.0), PointZ::new(8.0, 0.0, 1.0, 2.0), PointZ::new(0.0, 0.0, 7.0, 2.0)];
    let mp = Multipatch::with_parts(vec![Patch::Ring(ring)]);
    let q = mp.patches()[0].points();
    assert!(q.len() == 5);
    assert!(q[0] == q[4]);
}
