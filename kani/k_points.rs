//! K5 (C01, C03, C18 for the three point types): write_to / read_shape_content / size_in_bytes on the real
//! crate, all bit patterns.  Loop-free: complete.
use crate::record::{ConcreteReadableShape, WritableShape};
use crate::*;

fn any_f64() -> f64 {
    f64::from_bits(kani::any())
}

#[kani::proof]
fn k_points_roundtrip_point() {
    let p = Point { x: any_f64(), y: any_f64() };
    let mut buf = [0xAAu8; 20];
    {
        let mut d: &mut [u8] = &mut buf[..];
        assert!(p.write_to(&mut d).is_ok());
        assert!(d.len() == 20 - p.size_in_bytes() && p.size_in_bytes() == 16);
    }
    assert!(buf[0..8] == p.x.to_bits().to_le_bytes() && buf[8..16] == p.y.to_bits().to_le_bytes() && buf[16] == 0xAA);
    let mut s: &[u8] = &buf[..16];
    let q = Point::read_shape_content(&mut s, 16).unwrap();
    assert!(q.x.to_bits() == p.x.to_bits() && q.y.to_bits() == p.y.to_bits() && s.is_empty());
}

#[kani::proof]
fn k_points_roundtrip_pointm() {
    let p = PointM { x: any_f64(), y: any_f64(), m: any_f64() };
    let mut buf = [0xAAu8; 28];
    {
        let mut d: &mut [u8] = &mut buf[..];
        assert!(p.write_to(&mut d).is_ok());
        assert!(d.len() == 28 - p.size_in_bytes() && p.size_in_bytes() == 24);
    }
    assert!(buf[16..24] == p.m.to_bits().to_le_bytes() && buf[24] == 0xAA);
    let mut s: &[u8] = &buf[..24];
    let q = PointM::read_shape_content(&mut s, 24).unwrap();
    // single points keep their measure bit-identical (no normalisation)
    assert!(q.x.to_bits() == p.x.to_bits() && q.y.to_bits() == p.y.to_bits() && q.m.to_bits() == p.m.to_bits());
}

#[kani::proof]
fn k_points_roundtrip_pointz() {
    let p = PointZ { x: any_f64(), y: any_f64(), z: any_f64(), m: any_f64() };
    let mut buf = [0xAAu8; 36];
    {
        let mut d: &mut [u8] = &mut buf[..];
        assert!(p.write_to(&mut d).is_ok());
        assert!(d.len() == 36 - p.size_in_bytes() && p.size_in_bytes() == 32);
    }
    assert!(buf[16..24] == p.z.to_bits().to_le_bytes() && buf[24..32] == p.m.to_bits().to_le_bytes() && buf[32] == 0xAA);
    let mut s: &[u8] = &buf[..32];
    let q = PointZ::read_shape_content(&mut s, 32).unwrap();
    assert!(q.x.to_bits() == p.x.to_bits() && q.y.to_bits() == p.y.to_bits() && q.z.to_bits() == p.z.to_bits() && q.m.to_bits() == p.m.to_bits());
    // foreign layout: PointZ without the optional M (24 bytes) reads with m = NO_DATA
    let mut s: &[u8] = &buf[..24];
    let q = PointZ::read_shape_content(&mut s, 24).unwrap();
    assert!(q.z.to_bits() == p.z.to_bits() && q.m.to_bits() == NO_DATA.to_bits());
}

/// any other content length is rejected with InvalidShapeRecordSize, nothing is read
#[kani::proof]
fn k_points_wrong_size() {
    let n: i32 = kani::any();
    let buf = [0u8; 40];
    let mut s: &[u8] = &buf[..];
    if n != 16 {
        assert!(matches!(Point::read_shape_content(&mut s, n), Err(Error::InvalidShapeRecordSize)));
    }
    if n != 24 {
        assert!(matches!(PointM::read_shape_content(&mut s, n), Err(Error::InvalidShapeRecordSize)));
    }
    if n != 24 && n != 32 {
        assert!(matches!(PointZ::read_shape_content(&mut s, n), Err(Error::InvalidShapeRecordSize)));
    }
    assert!(s.len() == 40);
}

/// C13: a point record whose content is cut anywhere (the declared size is right, the data stops early) is an I/O
/// error for every cut length, never a value with invented fields.  Loop-free over all cut lengths: complete.
#[kani::proof]
fn k_points_truncated_is_io_error() {
    let buf = [0x3Fu8; 40];
    let k: usize = kani::any();
    kani::assume(k < 32);
    if k < 16 {
        let mut s: &[u8] = &buf[..k];
        let r = Point::read_shape_content(&mut s, 16);
        assert!(matches!(r, Err(Error::IoError(_))));
        std::mem::forget(r);
    }
    if k < 24 {
        let mut s: &[u8] = &buf[..k];
        let r = PointM::read_shape_content(&mut s, 24);
        assert!(matches!(r, Err(Error::IoError(_))));
        std::mem::forget(r);
        let mut s: &[u8] = &buf[..k];
        let r = PointZ::read_shape_content(&mut s, 24);
        assert!(matches!(r, Err(Error::IoError(_))));
        std::mem::forget(r);
    }
    let mut s: &[u8] = &buf[..k];
    let r = PointZ::read_shape_content(&mut s, 32);
    assert!(matches!(r, Err(Error::IoError(_))));
    std::mem::forget(r);
}
