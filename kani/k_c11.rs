//! K11 (C11): arithmetic of a header rewritten in place.  `finalize` overwrites the big-endian length field of the
//! header (bytes 24..28) with a value that is never smaller than the one stored (records are only appended).
//! Whatever prefix of the four new bytes reached the file, the length read back is at least the old one: a torn
//! header rewrite never hides a committed record, and never announces a length between... it may announce MORE than
//! was persisted, in which case the reader runs into the end of the data and reports an error (C13).
//! Loop-free over all pairs of lengths: complete.

#[kani::proof]
fn k_c11_torn_length() {
    let old: i32 = kani::any();
    let new: i32 = kani::any();
    kani::assume(0 <= old && old <= new);
    let k: usize = kani::any();
    kani::assume(k <= 4);
    let o = old.to_be_bytes();
    let n = new.to_be_bytes();
    let mix = [
        if k > 0 { n[0] } else { o[0] },
        if k > 1 { n[1] } else { o[1] },
        if k > 2 { n[2] } else { o[2] },
        if k > 3 { n[3] } else { o[3] },
    ];
    let torn = i32::from_be_bytes(mix);
    assert!(torn >= old);
    if k == 0 {
        assert!(torn == old);
    }
    if k == 4 {
        assert!(torn == new);
    }
    // the other fields of the header that a finalize rewrites with unchanged values (file code, version, shape type)
    // are byte-identical in the old and the new header, so any mix of the two is the same bytes
    let same: i32 = kani::any();
    let s = same.to_be_bytes();
    let mix2 = [if k > 0 { s[0] } else { s[0] }, if k > 1 { s[1] } else { s[1] }, s[2], s[3]];
    assert!(i32::from_be_bytes(mix2) == same);
    kani::cover!(k == 2 && torn > new);
}
