//! K10 (C02, C04, C09, C10 bounded): whole-writer histories on the real crate through the public API only
//! (ShapeWriter over in-memory destinations), Point shapes with symbolic coordinates.  BOUNDED (two records).
use crate::*;
use std::io::{Seek, SeekFrom, Write};

/// a growable in-memory file over a fixed array (cheaper for CBMC than Cursor<Vec<u8>>; unlike Cursor<&mut [u8]> its
/// end is the end of what was written)
struct Mem<'a> {
    buf: &'a mut [u8],
    pos: usize,
    len: usize,
}
impl Write for Mem<'_> {
    fn write(&mut self, data: &[u8]) -> std::io::Result<usize> {
        let mut i = 0;
        while i < data.len() {
            self.buf[self.pos + i] = data[i];
            i += 1;
        }
        self.pos += data.len();
        if self.pos > self.len {
            self.len = self.pos;
        }
        Ok(data.len())
    }
    fn flush(&mut self) -> std::io::Result<()> {
        Ok(())
    }
}
impl Seek for Mem<'_> {
    fn seek(&mut self, to: SeekFrom) -> std::io::Result<u64> {
        self.pos = match to {
            SeekFrom::Start(n) => n as usize,
            SeekFrom::End(d) => (self.len as i64 + d) as usize,
            SeekFrom::Current(d) => (self.pos as i64 + d) as usize,
        };
        Ok(self.pos as u64)
    }
}

fn be32(b: &[u8], at: usize) -> i32 {
    i32::from_be_bytes([b[at], b[at + 1], b[at + 2], b[at + 3]])
}
fn le32(b: &[u8], at: usize) -> i32 {
    i32::from_le_bytes([b[at], b[at + 1], b[at + 2], b[at + 3]])
}
fn le64(b: &[u8], at: usize) -> u64 {
    u64::from_le_bytes([b[at], b[at + 1], b[at + 2], b[at + 3], b[at + 4], b[at + 5], b[at + 6], b[at + 7]])
}

/// history: write P1, [finalize], write of another type (rejected), write P2, drop.
/// Files must be: header (9994, length, 1000, type 1) + two 28-byte records numbered 1, 2; index of two entries
#[kani::proof]
#[kani::unwind(24)]
fn k_hist_points_with_rejected_write() {
    let mut shp_buf = [0u8; 160];
    let mut shx_buf = [0u8; 120];
    let x1: u64 = kani::any();
    let y2: u64 = kani::any();
    let mid_finalize: bool = kani::any();
    {
        let mut w = ShapeWriter::with_shx(Mem { buf: &mut shp_buf[..], pos: 0, len: 0 }, Mem { buf: &mut shx_buf[..], pos: 0, len: 0 });
        let r = w.write_shape(&Point::new(f64::from_bits(x1), 2.0));
        assert!(r.is_ok());
        std::mem::forget(r);
        if mid_finalize {
            let r = w.finalize();
            assert!(r.is_ok());
            std::mem::forget(r);
        }
        let r = w.write_shape(&PointM::new(9.0, 9.0, 9.0));
        assert!(matches!(r, Err(Error::MismatchShapeType { requested: ShapeType::Point, actual: ShapeType::PointM })));
        std::mem::forget(r);
        let r = w.write_shape(&Point::new(3.0, f64::from_bits(y2)));
        assert!(r.is_ok());
        std::mem::forget(r);
    }
    // .shp
    assert!(be32(&shp_buf, 0) == 9994 && be32(&shp_buf, 24) == 78 && le32(&shp_buf, 28) == 1000 && le32(&shp_buf, 32) == 1);
    assert!(be32(&shp_buf, 100) == 1 && be32(&shp_buf, 104) == 10 && le32(&shp_buf, 108) == 1);
    assert!(le64(&shp_buf, 112) == x1 && le64(&shp_buf, 120) == 2.0f64.to_bits());
    assert!(be32(&shp_buf, 128) == 2 && be32(&shp_buf, 132) == 10 && le32(&shp_buf, 136) == 1);
    assert!(le64(&shp_buf, 140) == 3.0f64.to_bits() && le64(&shp_buf, 148) == y2);
    assert!(shp_buf[156] == 0 && shp_buf[159] == 0);
    // .shx
    assert!(be32(&shx_buf, 0) == 9994 && be32(&shx_buf, 24) == 58 && le32(&shx_buf, 32) == 1);
    assert!(be32(&shx_buf, 100) == 50 && be32(&shx_buf, 104) == 10 && be32(&shx_buf, 108) == 64 && be32(&shx_buf, 112) == 10);
    assert!(shx_buf[116] == 0);
}

/// C11 (bounded): a crash right after an append that follows a completed finalize (the writer is forgotten, so
/// no Drop / finalize runs): both files must still announce exactly what the completed finalize committed, and
/// the committed record must be intact; the appended bytes lie after the committed length.
#[kani::proof]
#[kani::unwind(24)]
fn k_hist_crash_after_append() {
    let mut shp_buf = [0u8; 160];
    let mut shx_buf = [0u8; 120];
    let x1: u64 = kani::any();
    {
        let mut w = ShapeWriter::with_shx(Mem { buf: &mut shp_buf[..], pos: 0, len: 0 }, Mem { buf: &mut shx_buf[..], pos: 0, len: 0 });
        let r = w.write_shape(&Point::new(f64::from_bits(x1), 2.0));
        assert!(r.is_ok());
        std::mem::forget(r);
        let r = w.finalize();
        assert!(r.is_ok());
        std::mem::forget(r);
        let r = w.write_shape(&Point::new(3.0, 4.0));
        assert!(r.is_ok());
        std::mem::forget(r);
        std::mem::forget(w); // crash: nothing more reaches the files
    }
    assert!(be32(&shp_buf, 0) == 9994 && be32(&shp_buf, 24) == 64 && le32(&shp_buf, 28) == 1000 && le32(&shp_buf, 32) == 1);
    assert!(be32(&shp_buf, 100) == 1 && be32(&shp_buf, 104) == 10 && le32(&shp_buf, 108) == 1);
    assert!(le64(&shp_buf, 112) == x1 && le64(&shp_buf, 120) == 2.0f64.to_bits());
    assert!(be32(&shx_buf, 0) == 9994 && be32(&shx_buf, 24) == 54 && be32(&shx_buf, 100) == 50 && be32(&shx_buf, 104) == 10);
}

/// a destination that persists only the first `budget` bytes it is given (a crash after that many bytes), and goes on
/// accepting writes so that the program runs to its end
struct CutMem<'a> {
    buf: &'a mut [u8],
    pos: usize,
    len: usize,
    budget: usize,
}
impl Write for CutMem<'_> {
    fn write(&mut self, data: &[u8]) -> std::io::Result<usize> {
        let mut i = 0;
        while i < data.len() {
            if self.budget > 0 {
                self.buf[self.pos + i] = data[i];
                self.budget -= 1;
                if self.pos + i + 1 > self.len {
                    self.len = self.pos + i + 1;
                }
            }
            i += 1;
        }
        self.pos += data.len();
        Ok(data.len())
    }
    fn flush(&mut self) -> std::io::Result<()> {
        Ok(())
    }
}
impl Seek for CutMem<'_> {
    fn seek(&mut self, to: SeekFrom) -> std::io::Result<u64> {
        self.pos = match to {
            SeekFrom::Start(n) => n as usize,
            SeekFrom::End(d) => (self.len as i64 + d) as usize,
            SeekFrom::Current(d) => (self.pos as i64 + d) as usize,
        };
        Ok(self.pos as u64)
    }
}

/// C11 (bounded): `write_shapes` of two points with the .shp cut after an arbitrary number of bytes: what was
/// persisted after the header is a prefix of the complete file (records are only ever appended, byte after byte)
#[kani::proof]
#[kani::unwind(24)]
fn k_hist_cut_is_prefix() {
    let pts = [Point::new(1.5, -2.5), Point::new(3.0, 4.0)];
    let mut full = [0u8; 160];
    let mut full_x = [0u8; 120];
    {
        let w = ShapeWriter::with_shx(Mem { buf: &mut full[..], pos: 0, len: 0 }, Mem { buf: &mut full_x[..], pos: 0, len: 0 });
        let r = w.write_shapes(&pts);
        assert!(r.is_ok());
        std::mem::forget(r);
    }
    let budget: usize = kani::any();
    kani::assume(budget <= 156);
    let mut cut = [0u8; 160];
    let mut cut_x = [0u8; 120];
    let persisted;
    {
        let mut sink = CutMem { buf: &mut cut[..], pos: 0, len: 0, budget };
        let mut sink_x = CutMem { buf: &mut cut_x[..], pos: 0, len: 0, budget: 1000 };
        {
            let w = ShapeWriter::with_shx(&mut sink, &mut sink_x);
            let r = w.write_shapes(&pts);
            std::mem::forget(r);
        }
        persisted = sink.len;
    }
    assert!(persisted <= 156);
    let mut i = 100;
    while i < 156 {
        // four bytes per step keeps the loop within the unwinding bound
        assert!(i >= persisted || cut[i] == full[i]);
        assert!(i + 1 >= persisted || cut[i + 1] == full[i + 1]);
        assert!(i + 2 >= persisted || cut[i + 2] == full[i + 2]);
        assert!(i + 3 >= persisted || cut[i + 3] == full[i + 3]);
        i += 4;
    }
}

/// C05 (bounded): the header ranges of a one-record PointZ file are exactly the record's values, also when a value
/// is infinite (the running box starts from infinities, which must not be mistaken for "untouched" once data arrived)
#[kani::proof]
#[kani::unwind(24)]
fn k_hist_header_box_single_pointz() {
    let mut shp_buf = [0u8; 160];
    let z: f64 = if kani::any() { f64::INFINITY } else { f64::from_bits(0x4014_0000_0000_0000) }; // +inf or 5.0
    let x: u64 = kani::any();
    kani::assume(!f64::from_bits(x).is_nan());
    {
        let mut w = ShapeWriter::new(Mem { buf: &mut shp_buf[..], pos: 0, len: 0 });
        let r = w.write_shape(&PointZ::new(f64::from_bits(x), 2.0, z, 3.0));
        assert!(r.is_ok());
        std::mem::forget(r);
    }
    // header: Xmin 36, Ymin 44, Xmax 52, Ymax 60, Zmin 68, Zmax 76, Mmin 84, Mmax 92
    assert!(le32(&shp_buf, 32) == 11);
    assert!(le64(&shp_buf, 36) == x && le64(&shp_buf, 52) == x);
    assert!(le64(&shp_buf, 44) == 2.0f64.to_bits() && le64(&shp_buf, 60) == 2.0f64.to_bits());
    assert!(le64(&shp_buf, 68) == z.to_bits() && le64(&shp_buf, 76) == z.to_bits());
    assert!(le64(&shp_buf, 84) == 3.0f64.to_bits() && le64(&shp_buf, 92) == 3.0f64.to_bits());
}

/// C09 / C02 / C08 (n = 0): a writer that is dropped without any write still leaves two complete, empty shapefiles
/// (100-byte headers announcing 50 words, null shape type)
#[kani::proof]
#[kani::unwind(24)]
fn k_hist_empty_writer_drop() {
    let mut shp_buf = [0xAAu8; 120];
    let mut shx_buf = [0xAAu8; 120];
    let explicit: bool = kani::any();
    {
        let mut w = ShapeWriter::with_shx(Mem { buf: &mut shp_buf[..], pos: 0, len: 0 }, Mem { buf: &mut shx_buf[..], pos: 0, len: 0 });
        if explicit {
            let r = w.finalize();
            assert!(r.is_ok());
            std::mem::forget(r);
        }
    }
    assert!(be32(&shp_buf, 0) == 9994 && be32(&shp_buf, 24) == 50 && le32(&shp_buf, 28) == 1000 && le32(&shp_buf, 32) == 0);
    assert!(be32(&shx_buf, 0) == 9994 && be32(&shx_buf, 24) == 50 && le32(&shx_buf, 28) == 1000 && le32(&shx_buf, 32) == 0);
    assert!(shp_buf[99] != 0xAA && shp_buf[100] == 0xAA && shx_buf[100] == 0xAA);
}

/// C09 (bounded): finalize placement does not change the header ranges. History: write PointM with a NaN measure
/// (its range leaves the running M range at the neutral infinities), optional finalize, write PointM with measure m
/// (symbolic, finite or infinite, not NaN), drop. The header M range must be [m, m] whether or not the intermediate
/// finalize ran (defect fixed by 4bbb622: finalize used to store the zeroed "untouched" range into the accumulator).
#[kani::proof]
#[kani::unwind(24)]
fn k_hist_finalize_keeps_accumulator() {
    let mut shp_buf = [0u8; 200];
    let m: u64 = kani::any();
    kani::assume(!f64::from_bits(m).is_nan());
    let fin: bool = kani::any();
    {
        let mut w = ShapeWriter::new(Mem { buf: &mut shp_buf[..], pos: 0, len: 0 });
        let r = w.write_shape(&PointM::new(1.0, 2.0, f64::NAN));
        assert!(r.is_ok());
        std::mem::forget(r);
        if fin {
            let r = w.finalize();
            assert!(r.is_ok());
            std::mem::forget(r);
        }
        let r = w.write_shape(&PointM::new(3.0, 4.0, f64::from_bits(m)));
        assert!(r.is_ok());
        std::mem::forget(r);
    }
    let expect = if f64::from_bits(m) <= crate::NO_DATA { 0.0f64.to_bits() } else { m };
    assert!(le32(&shp_buf, 32) == 21);
    assert!(le64(&shp_buf, 84) == expect && le64(&shp_buf, 92) == expect);
    kani::cover!(fin);
    kani::cover!(!fin);
}
