//! K10 (C02, C04, C09, C10 bounded): whole-writer histories on the real crate through the public API only
//! (ShapeWriter over in-memory destinations), Point shapes with symbolic coordinates.  BOUNDED (two records).
use crate::*;
use std::io::{Seek, SeekFrom, Write};

/// a growable in-memory file over a fixed array (cheaper for CBMC than Cursor<Vec<u8>>; unlike Cursor<&mut [u8]> its
/// end is the end of what was written)
struct Mem<'a> {
    buf: &'a mut [u8],
    pos: usize,
    len: usize,
}
impl Write for Mem<'_> {
    fn write(&mut self, data: &[u8]) -> std::io::Result<usize> {
        let mut i = 0;
        while i < data.len() {
            self.buf[self.pos + i] = data[i];
            i += 1;
        }
        self.pos += data.len();
        if self.pos > self.len {
            self.len = self.pos;
        }
        Ok(data.len())
    }
    fn flush(&mut self) -> std::io::Result<()> {
        Ok(())
    }
}
impl Seek for Mem<'_> {
    fn seek(&mut self, to: SeekFrom) -> std::io::Result<u64> {
        self.pos = match to {
            SeekFrom::Start(n) => n as usize,
            SeekFrom::End(d) => (self.len as i64 + d) as usize,
            SeekFrom::Current(d) => (self.pos as i64 + d) as usize,
        };
        Ok(self.pos as u64)
    }
}

fn be32(b: &[u8], at: usize) -> i32 {
    i32::from_be_bytes([b[at], b[at + 1], b[at + 2], b[at + 3]])
}
fn le32(b: &[u8], at: usize) -> i32 {
    i32::from_le_bytes([b[at], b[at + 1], b[at + 2], b[at + 3]])
}
fn le64(b: &[u8], at: usize) -> u64 {
    u64::from_le_bytes([b[at], b[at + 1], b[at + 2], b[at + 3], b[at + 4], b[at + 5], b[at + 6], b[at + 7]])
}

/// history: write P1, [finalize], write of another type (rejected), write P2, drop.
/// Files must be: header (9994, length, 1000, type 1) + two 28-byte records numbered 1, 2; index of two entries
#[kani::proof]
#[kani::unwind(24)]
fn k_hist_points_with_rejected_write() {
    let mut shp_buf = [0u8; 160];
    let mut shx_buf = [0u8; 120];
    let x1: u64 = kani::any();
    let y2: u64 = kani::any();
    let mid_finalize: bool = kani::any();
    {
        let mut w = ShapeWriter::with_shx(Mem { buf: &mut shp_buf[..], pos: 0, len: 0 }, Mem { buf: &mut shx_buf[..], pos: 0, len: 0 });
        let r = w.write_shape(&Point::new(f64::from_bits(x1), 2.0));
        assert!(r.is_ok());
        std::mem::forget(r);
        if mid_finalize {
            let r = w.finalize();
            assert!(r.is_ok());
            std::mem::forget(r);
        }
        let r = w.write_shape(&PointM::new(9.0, 9.0, 9.0));
        assert!(matches!(r, Err(Error::MismatchShapeType { requested: ShapeType::Point, actual: ShapeType::PointM })));
        std::mem::forget(r);
        let r = w.write_shape(&Point::new(3.0, f64::from_bits(y2)));
        assert!(r.is_ok());
        std::mem::forget(r);
    }
    // .shp
    assert!(be32(&shp_buf, 0) == 9994 && be32(&shp_buf, 24) == 78 && le32(&shp_buf, 28) == 1000 && le32(&shp_buf, 32) == 1);
    assert!(be32(&shp_buf, 100) == 1 && be32(&shp_buf, 104) == 10 && le32(&shp_buf, 108) == 1);
    assert!(le64(&shp_buf, 112) == x1 && le64(&shp_buf, 120) == 2.0f64.to_bits());
    assert!(be32(&shp_buf, 128) == 2 && be32(&shp_buf, 132) == 10 && le32(&shp_buf, 136) == 1);
    assert!(le64(&shp_buf, 140) == 3.0f64.to_bits() && le64(&shp_buf, 148) == y2);
    assert!(shp_buf[156] == 0 && shp_buf[159] == 0);
    // .shx
    assert!(be32(&shx_buf, 0) == 9994 && be32(&shx_buf, 24) == 58 && le32(&shx_buf, 32) == 1);
    assert!(be32(&shx_buf, 100) == 50 && be32(&shx_buf, 104) == 10 && be32(&shx_buf, 108) == 64 && be32(&shx_buf, 112) == 10);
    assert!(shx_buf[116] == 0);
}
