//! K6 (C06 bounded): bulk conversion of generic shapes stops at the first shape of another type, null shapes included
use crate::*;

#[kani::proof]
#[kani::unwind(5)]
fn k06_bulk_conversion_stops_at_null_shape() {
    let x: f64 = f64::from_bits(kani::any());
    let ok = convert_shapes_to_vec_of::<Point>(vec![Shape::Point(Point::new(x, 2.0)), Shape::Point(Point::new(3.0, 4.0))]);
    assert!(matches!(&ok, Ok(v) if v.len() == 2 && v[0].x.to_bits() == x.to_bits() && v[1].y == 4.0));
    std::mem::forget(ok);
    let r = convert_shapes_to_vec_of::<Point>(vec![Shape::Point(Point::new(1.0, 2.0)), Shape::NullShape, Shape::Point(Point::new(3.0, 4.0))]);
    assert!(matches!(r, Err(Error::MismatchShapeType { requested: ShapeType::Point, actual: ShapeType::NullShape })));
    std::mem::forget(r);
    let r = convert_shapes_to_vec_of::<PointM>(vec![Shape::Point(Point::new(1.0, 2.0))]);
    assert!(matches!(r, Err(Error::MismatchShapeType { requested: ShapeType::PointM, actual: ShapeType::Point })));
    std::mem::forget(r);
}

/// quick companion: a null shape after a point stops the bulk conversion with the mismatch error
#[kani::proof]
#[kani::unwind(4)]
fn k06_bulk_conversion_null_shape_quick() {
    let r = convert_shapes_to_vec_of::<Point>(vec![Shape::Point(Point::new(1.0, 2.0)), Shape::NullShape]);
    assert!(matches!(r, Err(Error::MismatchShapeType { requested: ShapeType::Point, actual: ShapeType::NullShape })));
    std::mem::forget(r);
}
