//! K6 (C06 bounded): bulk conversion of generic shapes stops at the first shape of another type, null shapes included
use crate::*;

/// a null shape after a point stops the bulk conversion with the mismatch error (a three-case variant with a symbolic
/// coordinate took 19 minutes of CBMC time and was dropped)
#[kani::proof]
#[kani::unwind(4)]
fn k06_bulk_conversion_null_shape_quick() {
    let r = convert_shapes_to_vec_of::<Point>(vec![Shape::Point(Point::new(1.0, 2.0)), Shape::NullShape]);
    assert!(matches!(r, Err(Error::MismatchShapeType { requested: ShapeType::Point, actual: ShapeType::NullShape })));
    std::mem::forget(r);
}
