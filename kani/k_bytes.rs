//! K3 (A2, A5): the byteorder contract assumed by the Verus side, checked on the real byteorder crate,
//! and the layout constants.  Loop-free over all values: complete.
use byteorder::{BigEndian, LittleEndian, ReadBytesExt, WriteBytesExt};

const _: () = assert!(std::mem::size_of::<f64>() == 8);
const _: () = assert!(std::mem::size_of::<i32>() == 4);
const _: () = assert!(std::mem::size_of::<crate::Point>() == 16);
const _: () = assert!(std::mem::size_of::<usize>() == 8);

/// write_i32::<E> emits exactly to_E_bytes (4 bytes); read_i32::<E> is its inverse on any 4 bytes
#[kani::proof]
fn k_bytes_i32() {
    let v: i32 = kani::any();
    let mut le = [0u8; 4];
    let mut be = [0u8; 4];
    {
        let mut d: &mut [u8] = &mut le;
        assert!(d.write_i32::<LittleEndian>(v).is_ok());
        assert!(d.is_empty());
    }
    {
        let mut d: &mut [u8] = &mut be;
        assert!(d.write_i32::<BigEndian>(v).is_ok());
    }
    assert!(le == v.to_le_bytes() && be == v.to_be_bytes());
    let mut s: &[u8] = &le;
    assert!(s.read_i32::<LittleEndian>().unwrap() == v && s.is_empty());
    let mut s: &[u8] = &be;
    assert!(s.read_i32::<BigEndian>().unwrap() == v);
    // surjectivity: any 4 bytes decode to the value that re-encodes to them
    let raw: [u8; 4] = kani::any();
    let mut s: &[u8] = &raw;
    let w = s.read_i32::<LittleEndian>().unwrap();
    assert!(w.to_le_bytes() == raw);
    let mut s: &[u8] = &raw;
    let w = s.read_i32::<BigEndian>().unwrap();
    assert!(w.to_be_bytes() == raw);
}

/// same for f64 (bit patterns incl. NaN payloads survive)
#[kani::proof]
fn k_bytes_f64() {
    let bits: u64 = kani::any();
    let v = f64::from_bits(bits);
    let mut le = [0u8; 8];
    {
        let mut d: &mut [u8] = &mut le;
        assert!(d.write_f64::<LittleEndian>(v).is_ok());
        assert!(d.is_empty());
    }
    assert!(le == bits.to_le_bytes());
    let mut s: &[u8] = &le;
    let r = s.read_f64::<LittleEndian>().unwrap();
    assert!(r.to_bits() == bits && s.is_empty());
    let raw: [u8; 8] = kani::any();
    let mut s: &[u8] = &raw;
    let w = s.read_f64::<LittleEndian>().unwrap();
    assert!(w.to_bits().to_le_bytes() == raw);
}

/// a source with fewer bytes than needed fails with an I/O error and consumes nothing usable
#[kani::proof]
fn k_bytes_short_source() {
    let raw: [u8; 7] = kani::any();
    let n: usize = kani::any();
    kani::assume(n < 4);
    // (results are forgotten, not dropped: dropping an io::Error trips a Kani artefact in its bit-packed repr)
    let mut s: &[u8] = &raw[..n];
    let r = s.read_i32::<LittleEndian>();
    assert!(r.is_err());
    std::mem::forget(r);
    let mut s: &[u8] = &raw;
    let r = s.read_f64::<LittleEndian>();
    assert!(r.is_err());
    std::mem::forget(r);
}
