//! K2 (A3): the float theory assumed by the Verus side, proved on IEEE-754 semantics (CBMC floats).
//! Loop-free, full domain (all bit patterns of every operand): complete.
use crate::record::NO_DATA;
use crate::writer::{f64_max, f64_min};

fn any_f64() -> f64 {
    f64::from_bits(kani::any())
}

/// order axioms: NaN, reflexivity, symmetry, totality, asymmetry, transitivity (incl. mixed with ==)
#[kani::proof]
fn k_float_order() {
    let a = any_f64();
    let b = any_f64();
    let c = any_f64();
    // ax_nan
    if a.is_nan() || b.is_nan() {
        assert!(!(a < b) && !(b < a) && !(a == b) && !(b == a));
    }
    // ax_feq_refl / ax_feq_sym
    if !a.is_nan() {
        assert!(a == a);
    }
    if a == b {
        assert!(b == a);
    }
    // ax_total / ax_asym
    if !a.is_nan() && !b.is_nan() {
        assert!(a < b || a == b || b < a);
    }
    if a < b {
        assert!(!(b < a) && !(a == b));
    }
    // transitivity
    if a < b && b < c {
        assert!(a < c);
    }
    if a < b && b == c {
        assert!(a < c);
    }
    if a == b && b < c {
        assert!(a < c);
    }
    if a == b && b == c {
        assert!(a == c);
    }
    // link axioms: >, <=, >=, != in terms of < and ==
    assert!((a > b) == (b < a));
    assert!((a <= b) == (a < b || a == b));
    assert!((a >= b) == (b < a || b == a));
    assert!((a != b) == !(a == b));
    // ax_eq_bits: IEEE-equal floats have the same bits unless both are zeros
    if a == b {
        assert!(a.to_bits() == b.to_bits() || (a == 0.0 && b == 0.0));
    }
    kani::cover!(a < b && b < c);
    kani::cover!(a.is_nan());
}

/// f64::max (A3 ax_std_fmax) for a non-NaN second operand
#[kani::proof]
fn k_float_fmax() {
    let a = any_f64();
    let b = any_f64();
    kani::assume(!b.is_nan());
    let r = f64::max(a, b);
    if a.is_nan() || a < b {
        assert!(r.to_bits() == b.to_bits());
    }
    if b < a {
        assert!(r.to_bits() == a.to_bits());
    }
    if a == b {
        assert!(r.to_bits() == a.to_bits() || r.to_bits() == b.to_bits());
    }
    kani::cover!(a.is_nan());
}

/// f64::MIN / f64::MAX / finiteness (ax_minmax, ax_finite) and the NO_DATA constant (ax_no_data)
#[kani::proof]
fn k_float_minmax_nodata() {
    let a = any_f64();
    assert!(!f64::MIN.is_nan() && !f64::MAX.is_nan() && f64::MIN < f64::MAX);
    if a.is_finite() {
        assert!(!a.is_nan() && f64::MIN <= a && a <= f64::MAX);
    }
    assert!(!NO_DATA.is_nan() && NO_DATA.is_finite() && NO_DATA != 0.0);
    kani::cover!(a.is_finite());
}

/// the repository's fold steps are what the Verus contracts say (s_min / s_max)
#[kani::proof]
fn k_float_fold_steps() {
    let a = any_f64();
    let b = any_f64();
    let mn = f64_min(a, b);
    let mx = f64_max(a, b);
    assert!(mn.to_bits() == if a < b { a.to_bits() } else { b.to_bits() });
    assert!(mx.to_bits() == if a > b { a.to_bits() } else { b.to_bits() });
}

/// f64::INFINITY / f64::NEG_INFINITY (ax_inf_not_nan, ax_inf_extreme): extreme elements of the order on non-NaN values
#[kani::proof]
fn k_float_infinities() {
    let a = any_f64();
    assert!(!f64::INFINITY.is_nan() && !f64::NEG_INFINITY.is_nan() && f64::NEG_INFINITY < f64::INFINITY);
    if !a.is_nan() {
        assert!(a < f64::INFINITY || a.to_bits() == f64::INFINITY.to_bits());
        assert!(f64::NEG_INFINITY < a || a.to_bits() == f64::NEG_INFINITY.to_bits());
    }
    if a == f64::INFINITY {
        assert!(a.to_bits() == f64::INFINITY.to_bits());
    }
    if a == f64::NEG_INFINITY {
        assert!(a.to_bits() == f64::NEG_INFINITY.to_bits());
    }
}
