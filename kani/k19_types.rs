//! K1 (C19): shape type codes over the full 32-bit domain -- loop-free, complete.
//! The ESRI table below is written out from the whitepaper / the statement, not from src/lib.rs.
use crate::{Error, ShapeType};

const TABLE: [(i32, ShapeType, bool, bool, i8); 14] = [
    // code, type, has_z, has_m, multipart (1 yes, 0 no, -1 unspecified by the statement)
    (0, ShapeType::NullShape, false, false, -1),
    (1, ShapeType::Point, false, false, 0),
    (3, ShapeType::Polyline, false, false, 1),
    (5, ShapeType::Polygon, false, false, 1),
    (8, ShapeType::Multipoint, false, false, 0),
    (11, ShapeType::PointZ, true, true, 0),
    (13, ShapeType::PolylineZ, true, true, 1),
    (15, ShapeType::PolygonZ, true, true, 1),
    (18, ShapeType::MultipointZ, true, true, 0),
    (21, ShapeType::PointM, false, true, 0),
    (23, ShapeType::PolylineM, false, true, 1),
    (25, ShapeType::PolygonM, false, true, 1),
    (28, ShapeType::MultipointM, false, true, 0),
    (31, ShapeType::Multipatch, true, false, 1),
];

fn valid(c: i32) -> bool {
    matches!(c, 0 | 1 | 3 | 5 | 8 | 11 | 13 | 15 | 18 | 21 | 23 | 25 | 28 | 31)
}

/// for every i32: decoding succeeds exactly on the 14 codes, and re-encoding returns the code
#[kani::proof]
fn k19_from_all_codes() {
    let c: i32 = kani::any();
    let r = ShapeType::from(c);
    assert!(r.is_some() == valid(c));
    if let Some(t) = r {
        assert!(t as i32 == c);
    }
    kani::cover!(r.is_some());
    kani::cover!(r.is_none() && c < 0);
}

/// the 14 rows: code <-> type, predicates
#[kani::proof]
#[kani::unwind(16)]
fn k19_table_rows() {
    let i: usize = kani::any();
    kani::assume(i < 14);
    let (code, t, z, m, mp) = TABLE[i];
    assert!(t as i32 == code);
    assert!(ShapeType::from(code) == Some(t));
    assert!(t.has_z() == z);
    assert!(t.has_m() == m);
    if mp == 1 {
        assert!(t.is_multipart());
    }
    if mp == 0 {
        assert!(!t.is_multipart());
    }
    kani::cover!(i == 13);
}

/// a type code coming from a file: invalid codes are reported as InvalidShapeType carrying the value
#[kani::proof]
fn k19_read_from_bytes() {
    let bytes: [u8; 4] = kani::any();
    let c = i32::from_le_bytes(bytes);
    let mut src: &[u8] = &bytes;
    match ShapeType::read_from(&mut src) {
        Ok(t) => {
            assert!(valid(c));
            assert!(t as i32 == c);
        }
        Err(Error::InvalidShapeType(v)) => {
            assert!(!valid(c));
            assert!(v == c);
        }
        Err(_) => {
            assert!(false);
        }
    }
    kani::cover!(valid(c));
    kani::cover!(!valid(c));
}

/// type -> code -> bytes -> type  (write_to emits the little-endian code)
#[kani::proof]
#[kani::unwind(16)]
fn k19_write_read_roundtrip() {
    let i: usize = kani::any();
    kani::assume(i < 14);
    let (code, t, _, _, _) = TABLE[i];
    let mut buf = [0u8; 4];
    {
        let mut dst: &mut [u8] = &mut buf;
        assert!(t.write_to(&mut dst).is_ok());
    }
    assert!(buf == code.to_le_bytes());
    let mut src: &[u8] = &buf;
    assert!(matches!(ShapeType::read_from(&mut src), Ok(x) if x == t));
}

/// a fixed-capacity `fmt::Write` sink (no allocation): what `Display` prints is collected byte by byte
struct Buf {
    b: [u8; 16],
    n: usize,
}
impl core::fmt::Write for Buf {
    fn write_str(&mut self, s: &str) -> core::fmt::Result {
        let bytes = s.as_bytes();
        let mut i = 0;
        while i < bytes.len() {
            if self.n < 16 {
                self.b[self.n] = bytes[i];
            }
            self.n += 1;
            i += 1;
        }
        Ok(())
    }
}
fn name_is(buf: &Buf, name: &[u8]) -> bool {
    if buf.n != name.len() {
        return false;
    }
    let mut i = 0;
    while i < name.len() {
        if buf.b[i] != name[i] {
            return false;
        }
        i += 1;
    }
    true
}

/// the displayed name of each of the 14 types is its ESRI name (whitepaper p.4, in the spelling of the statement)
#[kani::proof]
#[kani::unwind(14)]
fn k19_display_names() {
    use core::fmt::Write;
    const NAMES: [(ShapeType, &[u8]); 14] = [
        (ShapeType::NullShape, b"NullShape"),
        (ShapeType::Point, b"Point"),
        (ShapeType::Polyline, b"Polyline"),
        (ShapeType::Polygon, b"Polygon"),
        (ShapeType::Multipoint, b"Multipoint"),
        (ShapeType::PointZ, b"PointZ"),
        (ShapeType::PolylineZ, b"PolylineZ"),
        (ShapeType::PolygonZ, b"PolygonZ"),
        (ShapeType::MultipointZ, b"MultipointZ"),
        (ShapeType::PointM, b"PointM"),
        (ShapeType::PolylineM, b"PolylineM"),
        (ShapeType::PolygonM, b"PolygonM"),
        (ShapeType::MultipointM, b"MultipointM"),
        (ShapeType::Multipatch, b"Multipatch"),
    ];
    let k: usize = kani::any();
    kani::assume(k < 14);
    let mut buf = Buf { b: [0u8; 16], n: 0 };
    let r = write!(buf, "{}", NAMES[k].0);
    assert!(r.is_ok());
    assert!(name_is(&buf, NAMES[k].1));
}

/// the type code of a FILE header (.shp or .shx, bytes 32..36, little endian): `Header::read_from` accepts exactly
/// the 14 codes and reports every other 32-bit value as InvalidShapeType carrying that value (all 2^32 values;
/// the rest of the header is symbolic too; loops: the 20-byte skip copy, unwinding assertions on)
#[kani::proof]
#[kani::unwind(24)]
fn k19_header_type_code() {
    let mut bytes: [u8; 100] = kani::any();
    bytes[0] = 0x00;
    bytes[1] = 0x00;
    bytes[2] = 0x27;
    bytes[3] = 0x0a;
    let c = i32::from_le_bytes([bytes[32], bytes[33], bytes[34], bytes[35]]);
    let mut src: &[u8] = &bytes;
    match crate::header::Header::read_from(&mut src) {
        Ok(h) => {
            assert!(valid(c));
            assert!(h.shape_type as i32 == c);
        }
        Err(Error::InvalidShapeType(v)) => {
            assert!(!valid(c));
            assert!(v == c);
        }
        Err(_) => {
            assert!(false);
        }
    }
    kani::cover!(valid(c));
    kani::cover!(!valid(c));
}
