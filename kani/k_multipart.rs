//! K7 (A12, A14; C01 C02 C18 bounded): the seven multipart `write_to` bodies, `size_in_bytes` and
//! `total_point_count` on the real crate, against an independent positional decoder written from the
//! ESRI whitepaper (PolyLine p.7, PolyLineM p.11, PolyLineZ p.17, MultiPatch p.20).
//! BOUNDED stand-in: fixed part structures (listed in each harness); coordinates symbolic for the
//! polyline family (struct built directly), concrete pairwise-distinct for polygons / multipatch
//! (their constructors compute float areas, which CBMC cannot afford on symbolic doubles).
use crate::record::polyline::GenericPolyline;
use crate::record::{GenericBBox, WritableShape};
use crate::*;

fn f64_at(b: &[u8], p: usize) -> u64 {
    u64::from_le_bytes([b[p], b[p + 1], b[p + 2], b[p + 3], b[p + 4], b[p + 5], b[p + 6], b[p + 7]])
}
fn i32_at(b: &[u8], p: usize) -> i32 {
    i32::from_le_bytes([b[p], b[p + 1], b[p + 2], b[p + 3]])
}
fn any_f64() -> f64 {
    f64::from_bits(kani::any())
}
fn any_pt() -> Point {
    Point { x: any_f64(), y: any_f64() }
}
fn any_ptm() -> PointM {
    PointM { x: any_f64(), y: any_f64(), m: any_f64() }
}
fn any_ptz() -> PointZ {
    PointZ { x: any_f64(), y: any_f64(), z: any_f64(), m: any_f64() }
}

/// Polyline, parts of sizes [2, 0, 1] (an empty part in the middle), symbolic box and coordinates
#[kani::proof]
#[kani::unwind(5)]
fn k_mp_polyline_write() {
    let p = [any_pt(), any_pt(), any_pt()];
    let shape = GenericPolyline::<Point> {
        bbox: GenericBBox { min: any_pt(), max: any_pt() },
        parts: vec![vec![p[0], p[1]], vec![], vec![p[2]]],
    };
    let mut buf = [0xAAu8; 120];
    let n = shape.size_in_bytes();
    assert!(n == 40 + 4 * 3 + 16 * 3);
    assert!(shape.total_point_count() == 3);
    {
        let mut d: &mut [u8] = &mut buf[..];
        assert!(shape.write_to(&mut d).is_ok());
        assert!(d.len() == 120 - n); // emitted exactly the announced size
    }
    assert!(f64_at(&buf, 0) == shape.bbox.min.x.to_bits() && f64_at(&buf, 8) == shape.bbox.min.y.to_bits());
    assert!(f64_at(&buf, 16) == shape.bbox.max.x.to_bits() && f64_at(&buf, 24) == shape.bbox.max.y.to_bits());
    assert!(i32_at(&buf, 32) == 3 && i32_at(&buf, 36) == 3);
    assert!(i32_at(&buf, 40) == 0 && i32_at(&buf, 44) == 2 && i32_at(&buf, 48) == 2);
    let x = 52;
    for i in 0..3 {
        assert!(f64_at(&buf, x + 16 * i) == p[i].x.to_bits() && f64_at(&buf, x + 16 * i + 8) == p[i].y.to_bits());
    }
    assert!(buf[n] == 0xAA);
}

/// PolylineM, parts [1, 2]
#[kani::proof]
#[kani::unwind(5)]
fn k_mp_polylinem_write() {
    let p = [any_ptm(), any_ptm(), any_ptm()];
    let shape = GenericPolyline::<PointM> {
        bbox: GenericBBox { min: any_ptm(), max: any_ptm() },
        parts: vec![vec![p[0]], vec![p[1], p[2]]],
    };
    let mut buf = [0xAAu8; 140];
    let n = shape.size_in_bytes();
    assert!(n == 40 + 4 * 2 + 16 * 3 + 16 + 8 * 3);
    {
        let mut d: &mut [u8] = &mut buf[..];
        assert!(shape.write_to(&mut d).is_ok());
        assert!(d.len() == 140 - n);
    }
    assert!(i32_at(&buf, 32) == 2 && i32_at(&buf, 36) == 3 && i32_at(&buf, 40) == 0 && i32_at(&buf, 44) == 1);
    let x = 48;
    let y = x + 16 * 3;
    assert!(f64_at(&buf, y) == shape.bbox.min.m.to_bits() && f64_at(&buf, y + 8) == shape.bbox.max.m.to_bits());
    for i in 0..3 {
        assert!(f64_at(&buf, x + 16 * i) == p[i].x.to_bits() && f64_at(&buf, x + 16 * i + 8) == p[i].y.to_bits());
        assert!(f64_at(&buf, y + 16 + 8 * i) == p[i].m.to_bits());
    }
    assert!(buf[n] == 0xAA);
}

/// PolylineZ, parts [2, 1]
#[kani::proof]
#[kani::unwind(5)]
fn k_mp_polylinez_write() {
    let p = [any_ptz(), any_ptz(), any_ptz()];
    let shape = GenericPolyline::<PointZ> {
        bbox: GenericBBox { min: any_ptz(), max: any_ptz() },
        parts: vec![vec![p[0], p[1]], vec![p[2]]],
    };
    let mut buf = [0xAAu8; 180];
    let n = shape.size_in_bytes();
    assert!(n == 40 + 4 * 2 + 16 * 3 + 16 + 8 * 3 + 16 + 8 * 3);
    {
        let mut d: &mut [u8] = &mut buf[..];
        assert!(shape.write_to(&mut d).is_ok());
        assert!(d.len() == 180 - n);
    }
    assert!(i32_at(&buf, 32) == 2 && i32_at(&buf, 36) == 3 && i32_at(&buf, 40) == 0 && i32_at(&buf, 44) == 2);
    let x = 48;
    let y = x + 16 * 3;
    let z = y + 16 + 8 * 3;
    assert!(f64_at(&buf, y) == shape.bbox.min.z.to_bits() && f64_at(&buf, y + 8) == shape.bbox.max.z.to_bits());
    assert!(f64_at(&buf, z) == shape.bbox.min.m.to_bits() && f64_at(&buf, z + 8) == shape.bbox.max.m.to_bits());
    for i in 0..3 {
        assert!(f64_at(&buf, x + 16 * i) == p[i].x.to_bits() && f64_at(&buf, x + 16 * i + 8) == p[i].y.to_bits());
        assert!(f64_at(&buf, y + 16 + 8 * i) == p[i].z.to_bits());
        assert!(f64_at(&buf, z + 16 + 8 * i) == p[i].m.to_bits());
    }
    assert!(buf[n] == 0xAA);
}

fn check_poly_head<P: crate::record::traits::HasXY>(buf: &[u8], parts: &[&[P]]) -> usize {
    // Box is checked by the caller; NumParts, NumPoints, Parts, Points
    let np = parts.len();
    let mut total = 0usize;
    for k in 0..np {
        assert!(i32_at(buf, 40 + 4 * k) == total as i32);
        total += parts[k].len();
    }
    assert!(i32_at(buf, 32) == np as i32 && i32_at(buf, 36) == total as i32);
    total
}

/// Polygon: rings [Outer 4 pts (closed to 5), Inner 3 pts (closed to 4)], concrete distinct coordinates
#[kani::proof]
#[kani::unwind(12)]
fn k_mp_polygon_write() {
    let shape = Polygon::with_rings(vec![
        PolygonRing::Outer(vec![Point::new(0.0, 0.0), Point::new(0.0, 8.0), Point::new(8.0, 9.0), Point::new(7.0, 1.0)]),
        PolygonRing::Inner(vec![Point::new(2.0, 2.0), Point::new(5.0, 3.0), Point::new(3.0, 6.0)]),
    ]);
    let r0 = shape.rings()[0].points();
    let r1 = shape.rings()[1].points();
    assert!(r0.len() == 5 && r1.len() == 4);
    let n = shape.size_in_bytes();
    assert!(n == 40 + 4 * 2 + 16 * 9);
    assert!(shape.total_point_count() == 9);
    let mut buf = [0xAAu8; 200];
    {
        let mut d: &mut [u8] = &mut buf[..];
        assert!(shape.write_to(&mut d).is_ok());
        assert!(d.len() == 200 - n);
    }
    assert!(f64_at(&buf, 0) == shape.bbox().min.x.to_bits() && f64_at(&buf, 24) == shape.bbox().max.y.to_bits());
    let total = check_poly_head(&buf, &[r0, r1]);
    let x = 40 + 4 * 2;
    for i in 0..total {
        let pt = if i < 5 { r0[i] } else { r1[i - 5] };
        assert!(f64_at(&buf, x + 16 * i) == pt.x.to_bits() && f64_at(&buf, x + 16 * i + 8) == pt.y.to_bits());
    }
    assert!(buf[n] == 0xAA);
}

/// PolygonZ: one Outer ring of 3 points (closed to 4) + one Outer ring of 3: Z and M blocks in order
#[kani::proof]
#[kani::unwind(12)]
fn k_mp_polygonz_write() {
    let shape = PolygonZ::with_rings(vec![
        PolygonRing::Outer(vec![PointZ::new(0.0, 0.0, 10.0, 20.0), PointZ::new(0.0, 8.0, 11.0, 21.0), PointZ::new(8.0, 9.0, 12.0, 22.0)]),
        PolygonRing::Outer(vec![PointZ::new(20.0, 20.0, 13.0, 23.0), PointZ::new(20.0, 28.0, 14.0, 24.0), PointZ::new(28.0, 29.0, 15.0, 25.0)]),
    ]);
    let r0 = shape.rings()[0].points();
    let r1 = shape.rings()[1].points();
    assert!(r0.len() == 4 && r1.len() == 4);
    let n = shape.size_in_bytes();
    assert!(n == 40 + 4 * 2 + 16 * 8 + 16 + 8 * 8 + 16 + 8 * 8);
    let mut buf = [0xAAu8; 360];
    {
        let mut d: &mut [u8] = &mut buf[..];
        assert!(shape.write_to(&mut d).is_ok());
        assert!(d.len() == 360 - n);
    }
    let total = check_poly_head(&buf, &[r0, r1]);
    let x = 48;
    let y = x + 16 * total;
    let z = y + 16 + 8 * total;
    assert!(f64_at(&buf, y) == shape.bbox().min.z.to_bits() && f64_at(&buf, y + 8) == shape.bbox().max.z.to_bits());
    assert!(f64_at(&buf, z) == shape.bbox().min.m.to_bits() && f64_at(&buf, z + 8) == shape.bbox().max.m.to_bits());
    for i in 0..total {
        let pt = if i < 4 { r0[i] } else { r1[i - 4] };
        assert!(f64_at(&buf, x + 16 * i) == pt.x.to_bits() && f64_at(&buf, x + 16 * i + 8) == pt.y.to_bits());
        assert!(f64_at(&buf, y + 16 + 8 * i) == pt.z.to_bits());
        assert!(f64_at(&buf, z + 16 + 8 * i) == pt.m.to_bits());
    }
    assert!(buf[n] == 0xAA);
}

/// PolygonM: Outer ring of 3 (closed to 4)
#[kani::proof]
#[kani::unwind(8)]
fn k_mp_polygonm_write() {
    let shape = PolygonM::with_rings(vec![PolygonRing::Outer(vec![PointM::new(0.0, 0.0, 20.0), PointM::new(0.0, 8.0, 21.0), PointM::new(8.0, 9.0, 22.0)])]);
    let r0 = shape.rings()[0].points();
    assert!(r0.len() == 4);
    let n = shape.size_in_bytes();
    assert!(n == 40 + 4 + 16 * 4 + 16 + 8 * 4);
    let mut buf = [0xAAu8; 200];
    {
        let mut d: &mut [u8] = &mut buf[..];
        assert!(shape.write_to(&mut d).is_ok());
        assert!(d.len() == 200 - n);
    }
    let total = check_poly_head(&buf, &[r0]);
    let x = 44;
    let y = x + 16 * total;
    assert!(f64_at(&buf, y) == shape.bbox().min.m.to_bits() && f64_at(&buf, y + 8) == shape.bbox().max.m.to_bits());
    for i in 0..total {
        assert!(f64_at(&buf, x + 16 * i) == r0[i].x.to_bits() && f64_at(&buf, x + 16 * i + 8) == r0[i].y.to_bits());
        assert!(f64_at(&buf, y + 16 + 8 * i) == r0[i].m.to_bits());
    }
    assert!(buf[n] == 0xAA);
}

/// Multipatch: all six patch kinds (1 or 2 points each, ring kinds get closed), kinds 0..5 in PartTypes
#[kani::proof]
#[kani::unwind(9)]
fn k_mp_multipatch_write() {
    let pz = |i: f64| PointZ::new(i, i + 0.5, i + 100.0, i + 200.0);
    let shape = Multipatch::with_parts(vec![
        Patch::TriangleStrip(vec![pz(1.0)]),
        Patch::TriangleFan(vec![pz(2.0)]),
        Patch::OuterRing(vec![pz(4.0), pz(5.0)]),
        Patch::InnerRing(vec![pz(6.0)]),
        Patch::FirstRing(vec![pz(7.0)]),
        Patch::Ring(vec![pz(9.0)]),
    ]);
    let lens = [1usize, 1, 3, 1, 1, 1];
    let mut total = 0usize;
    for k in 0..6 {
        assert!(shape.patches()[k].points().len() == lens[k]);
        total += lens[k];
    }
    assert!(shape.total_point_count() == total);
    let n = shape.size_in_bytes();
    assert!(n == 40 + 8 * 6 + 16 * total + 16 + 8 * total + 16 + 8 * total);
    let mut buf = [0xAAu8; 400];
    {
        let mut d: &mut [u8] = &mut buf[..];
        assert!(shape.write_to(&mut d).is_ok());
        assert!(d.len() == 400 - n);
    }
    assert!(i32_at(&buf, 32) == 6 && i32_at(&buf, 36) == total as i32);
    let mut off = 0usize;
    for k in 0..6 {
        assert!(i32_at(&buf, 40 + 4 * k) == off as i32);
        assert!(i32_at(&buf, 40 + 24 + 4 * k) == k as i32); // PartTypes: 0 strip, 1 fan, 2 outer, 3 inner, 4 first, 5 ring
        off += lens[k];
    }
    let x = 40 + 48;
    let y = x + 16 * total;
    let z = y + 16 + 8 * total;
    assert!(f64_at(&buf, y) == shape.bbox().min.z.to_bits() && f64_at(&buf, z + 8) == shape.bbox().max.m.to_bits());
    let mut i = 0usize;
    for k in 0..6 {
        for pt in shape.patches()[k].points() {
            assert!(f64_at(&buf, x + 16 * i) == pt.x.to_bits() && f64_at(&buf, x + 16 * i + 8) == pt.y.to_bits());
            assert!(f64_at(&buf, y + 16 + 8 * i) == pt.z.to_bits());
            assert!(f64_at(&buf, z + 16 + 8 * i) == pt.m.to_bits());
            i += 1;
        }
    }
    assert!(buf[n] == 0xAA);
}

fn one_patch(patch: Patch, code: i32, np: usize) {
    let shape = Multipatch::new(patch);
    let pts = shape.patches()[0].points();
    assert!(pts.len() == np);
    let n = shape.size_in_bytes();
    assert!(n == 40 + 8 + 16 * np + 16 + 8 * np + 16 + 8 * np);
    let mut buf = [0xAAu8; 180];
    {
        let mut d: &mut [u8] = &mut buf[..];
        assert!(shape.write_to(&mut d).is_ok());
        assert!(d.len() == 180 - n);
    }
    assert!(i32_at(&buf, 32) == 1 && i32_at(&buf, 36) == np as i32 && i32_at(&buf, 40) == 0);
    assert!(i32_at(&buf, 44) == code);
    let x = 48;
    let y = x + 16 * np;
    let z = y + 16 + 8 * np;
    assert!(f64_at(&buf, 0) == shape.bbox().min.x.to_bits() && f64_at(&buf, 24) == shape.bbox().max.y.to_bits());
    assert!(f64_at(&buf, y) == shape.bbox().min.z.to_bits() && f64_at(&buf, y + 8) == shape.bbox().max.z.to_bits());
    assert!(f64_at(&buf, z) == shape.bbox().min.m.to_bits() && f64_at(&buf, z + 8) == shape.bbox().max.m.to_bits());
    for i in 0..np {
        assert!(f64_at(&buf, x + 16 * i) == pts[i].x.to_bits() && f64_at(&buf, x + 16 * i + 8) == pts[i].y.to_bits());
        assert!(f64_at(&buf, y + 16 + 8 * i) == pts[i].z.to_bits() && f64_at(&buf, z + 16 + 8 * i) == pts[i].m.to_bits());
    }
    assert!(buf[n] == 0xAA);
}
fn pz2() -> Vec<PointZ> {
    vec![PointZ::new(1.0, 1.5, 101.0, 201.0), PointZ::new(2.0, 2.5, 102.0, 202.0)]
}
/// one patch of each kind: PartTypes code and layout (ring kinds are closed: 2 -> 3 points)
#[kani::proof]
#[kani::unwind(5)]
fn k_mp_patch_strip() { one_patch(Patch::TriangleStrip(pz2()), 0, 2); }
#[kani::proof]
#[kani::unwind(5)]
fn k_mp_patch_fan() { one_patch(Patch::TriangleFan(pz2()), 1, 2); }
#[kani::proof]
#[kani::unwind(5)]
fn k_mp_patch_outer() { one_patch(Patch::OuterRing(pz2()), 2, 3); }
#[kani::proof]
#[kani::unwind(5)]
fn k_mp_patch_inner() { one_patch(Patch::InnerRing(pz2()), 3, 3); }
#[kani::proof]
#[kani::unwind(5)]
fn k_mp_patch_first() { one_patch(Patch::FirstRing(pz2()), 4, 3); }
#[kani::proof]
#[kani::unwind(5)]
fn k_mp_patch_ring() { one_patch(Patch::Ring(pz2()), 5, 3); }
